"""C06 — the memory cache is bounded, least-recently-used, and keeps honest accounts.

Monitors: (a) class invariant + LRU/eviction rules evaluated on the live MemoryCache after every
operation of a breadth-first enumeration of operation sequences (de-duplicated by abstract state,
to closure in the thorough tier); (b) the same invariant on the cache inside filesystem back-ends
driven by random storage histories, plus an audit hook that watches for data-file opens while a
resident value is read."""
import collections
import json
import os
import sys

from vf import core, domain, env, storeops

ID = "C06"
LEVEL = "exploration"
RULE = ("(a) BFS over sequences of {put value of 4 size classes, put memento only, read, is_memoized, "
        "get_mementos, forget call/function/everything} on 3 keys (two of one function, one of a function "
        "whose stored name extends the first) applied to the real MemoryCache, de-duplicated by abstract "
        "state (LRU order, per-key size and has-value, usage, recency ranks) until no new state appears "
        "(closure is reached in both tiers; thorough adds a 4-key enumeration), for budgets 4 KiB / 6 KiB / 1 MiB; (b) random storage histories on "
        "filesystem back-ends with those budgets, invariant checked after every op, followed by a random "
        "forget-everything sequence; non-trivial = distinct abstract states in which an eviction or an "
        "oversize bypass was observed on the way, plus histories with >=1 eviction"
        '; rounds 10-11: reads with an earlier memento (read_stale) in the enumeration, frames with cells of very uneven size under many sampling states, booked sizes must not be negative'
        '; round 16: in some configurations of the directly driven cache the second function has a version with slashes')
ASSUMPTIONS = [
    "sizes are the code's own estimates (the property is about consistent accounts, not estimator accuracy)",
    "an eviction is only flagged when the victim's last definite use (value/memento written, value read) is "
    "later than a survivor's last possible use (any operation naming the survivor)",
]
TIMEOUT = 900
BUDGETS = {"4KiB": 4 * env.KIB, "6KiB": 6 * env.KIB, "1MiB": 1.0}
KEYS = [(0, 0), (0, 1), (1, 0), (2, 0)]  # fn#1/a0, fn#1/a1, fn#10/a0, fn1#0/a0 (4th key: thorough only)


def cases(tier, seed):
    if tier in ("quick", "thorough"):
        yield {"kind": "repo_tests"}
    for b in BUDGETS:
        yield {"kind": "bfs", "budget": b, "depth": 60, "nkeys": 3}
    # the same enumeration with weak-referenceable values (numpy arrays): the cache keeps a second,
    # weak table for those, so look-ups take other paths
    yield {"kind": "bfs", "budget": "4KiB", "depth": 60, "nkeys": 3, "values": "ndarray"}
    # ... and with both kinds mixed: a value that cannot be weakly referenced written over one that can
    yield {"kind": "bfs", "budget": "4KiB", "depth": 60, "nkeys": 3, "values": "mixed"}
    if tier == "thorough":
        # four keys: the state space (queue order x table order x weak references x recency ranks) is explored to a
        # bounded depth and a bounded number of states, not to closure
        yield {"kind": "bfs", "budget": "4KiB", "depth": 7, "nkeys": 4, "max_states": 250000}
    n = 150 if tier == "quick" else 6000
    for i in range(n):
        yield {"kind": "hist", "seed": seed, "idx": i, "length": 30 if tier == "quick" else 45,
               "budget": list(BUDGETS)[i % 3]}
    for i in range(4 if tier == "quick" else 40):
        # series / frames whose cells differ wildly in size (the size of such a value is estimated from a random sample
        # of its rows): puts under many states of the sampling generator
        yield {"kind": "frames", "seed": seed, "idx": i}


# ---------------------------------------------------------------- invariant on a live cache
def cache_invariant(cache):
    """Returns a list of (sig, message) for every broken clause."""
    bad = []
    total = sum(e.obj_size for e in cache.cache.values())
    if cache.memory_usage != total:
        bad.append(("usage counter differs from what resident entries account for",
                    "memory_usage=%r but resident entries sum to %r" % (cache.memory_usage, total)))
    if cache.memory_usage > cache.memory_cache_bytes:
        bad.append(("usage exceeds the budget", "memory_usage=%r > budget %r"
                    % (cache.memory_usage, cache.memory_cache_bytes)))
    for k, e in cache.cache.items():
        if e.obj_size < 0:
            # (memory attributed to an entry is an amount of memory: a negative booking lets the counter run below zero
            # and admits any amount afterwards)
            bad.append(("a negative size is booked for a resident entry", "%s size %r" % (k, e.obj_size)))
        if e.obj_size > cache.memory_cache_bytes:
            bad.append(("entry larger than the budget is resident", "%s size %r" % (k, e.obj_size)))
        # attribution: what is booked for an entry is the code's own estimate of what the entry holds
        # (only for value kinds whose estimate is exact and repeatable)
        if isinstance(getattr(e, "value", None), (type(None), str, bytes, int, float, bool)) and hasattr(e, "value"):
            est = cache._estimate_object_size(e.value)
            if e.obj_size != est:
                bad.append(("size booked for a resident entry differs from the estimate of the value it holds",
                            "%s booked %r, the cache's own estimate of the resident %s is %r"
                            % (k, e.obj_size, type(e.value).__name__, est)))
    dq = list(cache.lru_deque)
    if len(dq) != len(set(dq)) or set(dq) != set(cache.cache.keys()):
        bad.append(("LRU queue and entry table disagree", "queue=%r table=%r" % (dq, sorted(cache.cache))))
    if not cache.cache and cache.memory_usage != 0:
        bad.append(("usage not zero with nothing resident", "memory_usage=%r" % cache.memory_usage))
    return bad


class LruMonitor:
    """Tracks last definite / last possible use per cache key and judges queue order and evictions."""

    def __init__(self):
        self.step = 0
        self.definite = {}
        self.possible = {}

    def touch(self, key, definite):
        self.step += 1
        self.possible[key] = self.step
        if definite:
            self.definite[key] = self.step

    def forget(self, keys):
        for k in keys:
            self.definite.pop(k, None)
            self.possible.pop(k, None)

    def check_order(self, cache):
        dq = list(cache.lru_deque)
        for i, x in enumerate(dq):
            for y in dq[i + 1:]:
                if self.definite.get(x, 0) > self.possible.get(y, 0):
                    return ("entry used more recently is closer to eviction than one used less recently",
                            "queue=%r definite=%r possible=%r" % (dq, self.definite, self.possible))
        return None

    def check_evictions(self, before, cache, removed_ok, put_size):
        """before: OrderedDict key->size in queue order before the op."""
        after = set(cache.cache.keys())
        evicted = [k for k in before if k not in after and k not in removed_ok]
        if not evicted:
            return None, 0
        survivors = [k for k in before if k in after and k not in removed_ok]
        for v in evicted:
            for s in survivors:
                if self.definite.get(v, 0) > self.possible.get(s, 0):
                    return ("evicted a more recently used entry while a less recently used one stayed",
                            "victim %s survivor %s definite=%r possible=%r" % (v, s, self.definite, self.possible)), len(evicted)
        if put_size is None:
            return ("entries vanished although nothing was put or forgotten", "evicted=%r" % evicted), len(evicted)
        last = evicted[-1]
        if cache.memory_usage + before[last] <= cache.memory_cache_bytes:
            return ("evicted more than needed to make room",
                    "usage after=%r, last victim %s size %r, budget %r"
                    % (cache.memory_usage, last, before[last], cache.memory_cache_bytes)), len(evicted)
        self.forget(evicted)
        return None, len(evicted)


# ---------------------------------------------------------------- (a) BFS on the real MemoryCache
def size_classes(budget_bytes):
    b = int(budget_bytes)
    return {"third": b // 3, "most": int(b * 0.6), "exact": b, "over": b + 1}


def str_of_size(n):
    return "v" * (n - sys.getsizeof(""))


def bfs_ops(nkeys=3):
    ops = []
    for k in range(nkeys):
        for s in ("third", "most", "exact", "over"):
            ops.append(("put", k, s))
        ops += [("putm", k), ("read", k), ("ismem", k), ("getm", k), ("forget_call", k), ("read_stale", k)]
    ops += [("forget_fn", 0), ("forget_fn", 1), ("forget_all",)]
    if nkeys > 3:
        ops.append(("forget_fn", 2))
    return ops


def array_of_size(n):
    import numpy as np

    a = np.zeros(max(n - sys.getsizeof(np.zeros(0, dtype="int8")), 0), dtype="int8")
    assert sys.getsizeof(a) == n, (sys.getsizeof(a), n)
    return a


class CacheRunner:
    def __init__(self, budget_name, values="str"):
        from twosigma.memento.storage_base import MemoryCache

        # (the cache is driven directly here: in some configurations the second function carries a version with slashes, the
        # separator of cache keys)
        slashed = budget_name == "6KiB" or values != "str"  # (elsewhere the second function is fn#10, next to fn#1)
        self.refs = storeops.Refs("c", table=[("fn", "1"), ("fn", "rel/3.1/rc2"), ("fn1", "0")] if slashed else None)
        self.cache = MemoryCache(BUDGETS[budget_name])
        self.sizes = size_classes(self.cache.memory_cache_bytes)
        make = str_of_size if values == "str" else array_of_size
        self.values = {s: make(n) for s, n in self.sizes.items()}
        if values == "mixed":
            self.values = {s: (array_of_size if s in ("third", "exact") else str_of_size)(n) for s, n in self.sizes.items()}
        self.mon = LruMonitor()
        self.last_put = {}
        self.last_ref = {}  # weak-referenceable values the harness still holds: the cache may serve them via its weak references
        self.ck = [self.cache._cache_key_for_fn(self.refs.refs[f], self.refs.ah[f][a]) for f, a in KEYS]
        self.evictions = 0
        self.bypasses = 0

    def apply(self, op):
        """Applies op to the real cache and returns the list of broken rules."""
        c, bad = self.cache, []
        before = collections.OrderedDict((k, c.cache[k].obj_size) for k in c.lru_deque if k in c.cache)
        kind = op[0]
        removed_ok, put_size = set(), None
        if kind in ("put", "putm"):
            f, a = KEYS[op[1]]
            key = self.ck[op[1]]
            val = self.values[op[2]] if kind == "put" else None
            c.put(self.refs.memento(f, a, val), val, has_result=(kind == "put"))
            put_size = c._estimate_object_size(val)
            removed_ok.add(key)
            self.last_ref.pop(key, None)
            if kind == "put" and type(val).__name__ in ("ndarray", "DataFrame", "Series", "Index"):
                self.last_ref[key] = val
            if put_size > c.memory_cache_bytes:
                self.bypasses += 1
                self.last_put.pop(key, None)
                self.mon.forget([key])
                if key in c.cache:
                    bad.append(("entry larger than the budget is resident", "after oversize put of %s" % key))
            else:
                self.mon.touch(key, True)
                self.last_put[key] = val if kind == "put" else KeyError
                if key not in c.cache:
                    bad.append(("value that fits the budget was not cached", "put %s size %r" % (key, put_size)))
        elif kind == "read":
            f, a = KEYS[op[1]]
            key = self.ck[op[1]]
            try:
                got = c.read_result(self.refs.memento(f, a, None))
                exp = self.last_put.get(key, KeyError)
                if exp is KeyError and key in self.last_ref:
                    exp = self.last_ref[key]  # not resident, but still alive at the caller: served by weak reference
                if exp is KeyError or got is not exp and not domain.eq(got, exp):
                    bad.append(("cache serves a value other than the last one put",
                                "read %s got %s expected %s" % (key, domain.describe(got, 30),
                                                               "miss" if exp is KeyError else domain.describe(exp, 30))))
                self.mon.touch(key, True)
            except KeyError:
                if key in before and c.cache.get(key) is not None and c.cache[key].has_value:
                    bad.append(("resident value not served", key))
                self.mon.touch(key, False) if key in self.mon.possible else None
        elif kind == "read_stale":
            # a read with a memento obtained before the call was memoized again (its content key is not the resident
            # entry's): nothing is served, and nothing resident goes away
            import copy as _copy

            from twosigma.memento.storage_base import VersionedDataSourceKey

            f, a = KEYS[op[1]]
            key = self.ck[op[1]]
            stale = _copy.copy(self.refs.memento(f, a, None))
            stale.content_key = VersionedDataSourceKey("c/0000", "earlier")
            try:
                got = c.read_result(stale)
                bad.append(("cache serves a value other than the last one put", "read of %s with an earlier memento got %s"
                            % (key, domain.describe(got, 30))))
            except KeyError:
                pass
            if key in before and key not in c.cache:
                bad.append(("a read with an earlier memento removed the resident entry", key))
            if key in before:
                self.mon.touch(key, False)
        elif kind == "ismem":
            key = self.ck[op[1]]
            got = c.is_memoized(self.refs.refs[KEYS[op[1]][0]], self.refs.ah[KEYS[op[1]][0]][KEYS[op[1]][1]])
            if bool(got) != (key in before) and not (got and key in self.last_ref):
                bad.append(("is_memoized disagrees with residency", "%s got %r" % (key, got)))
            if key in before:
                self.mon.touch(key, False)
        elif kind == "getm":
            key = self.ck[op[1]]
            got = c.get_mementos([self.refs.fwah(*KEYS[op[1]])])[0]
            if (got is not None) != (key in before):
                bad.append(("get_mementos disagrees with residency", "%s got %r" % (key, got is not None)))
            if key in before:
                self.mon.touch(key, False)
        elif kind == "forget_call":
            key = self.ck[op[1]]
            c.forget_call(self.refs.fwah(*KEYS[op[1]]))
            removed_ok.add(key)
        elif kind == "forget_fn":
            c.forget_function(self.refs.refs[op[1]])
            removed_ok.update(self.ck[i] for i, (f, a) in enumerate(KEYS) if f == op[1])
        elif kind == "forget_all":
            c.forget_everything()
            removed_ok.update(self.ck)
        if kind.startswith("forget"):
            for k in removed_ok:
                self.last_put.pop(k, None)
                self.last_ref.pop(k, None)
                if k in c.cache:
                    bad.append(("forgotten entry still resident", k))
            self.mon.forget(removed_ok)
            others = [k for k in before if k not in removed_ok and k not in c.cache]
            if others:
                bad.append(("forget removed entries outside its scope", "%r" % others))
        bad += cache_invariant(c)
        if not kind.startswith("forget"):
            v, n = self.mon.check_evictions(before, c, removed_ok if kind in ("put", "putm") else set(),
                                            put_size)
            self.evictions += n
            if v:
                bad.append(v)
            for k in list(self.last_put):
                if k not in c.cache:
                    del self.last_put[k]
        o = self.mon.check_order(c)
        if o:
            bad.append(o)
        return bad

    def abstract(self):
        c = self.cache
        rank = lambda d: tuple(sorted(d, key=lambda k: d[k]))
        # (the insertion order of the entry table is part of the state: it is invisible to callers, but code
        # may come to depend on it)
        return (tuple((k, c.cache[k].obj_size, c.cache[k].has_value) for k in c.lru_deque if k in c.cache),
                c.memory_usage, rank(self.mon.definite), rank(self.mon.possible), tuple(c.cache.keys()),
                tuple(sorted(c.refs.keys())))

    def snapshot(self):
        """Copies of the containers of the live cache (entries themselves are never mutated in place by
        the cache: every put creates a new entry) and of the monitor's bookkeeping."""
        c = self.cache
        return (dict(c.cache), list(c.lru_deque), c.memory_usage, dict(c.refs),
                self.mon.step, dict(self.mon.definite), dict(self.mon.possible), dict(self.last_put),
                self.evictions, self.bypasses, dict(self.last_ref))

    def restore(self, snap):
        c = self.cache
        c.cache.clear(); c.cache.update(snap[0])
        c.lru_deque.clear(); c.lru_deque.extend(snap[1])
        c.memory_usage = snap[2]
        c.refs.clear(); c.refs.update(snap[3])
        self.mon.step, self.mon.definite, self.mon.possible = snap[4], dict(snap[5]), dict(snap[6])
        self.last_put = dict(snap[7])
        self.evictions, self.bypasses = snap[8], snap[9]
        self.last_ref = dict(snap[10])


def run_bfs(case, out):
    ops = bfs_ops(case.get("nkeys", 3))
    seen = {}
    frontier = [()]
    r = CacheRunner(case["budget"], case.get("values", "str"))
    seen[r.abstract()] = ()
    snaps = {(): r.snapshot()}
    depth, transitions, exhausted = 0, 0, False
    interesting = set()
    while frontier and depth < case["depth"] and len(seen) < case.get("max_states", 10 ** 9):
        nxt = []
        for path in frontier:
            for op in ops:
                r.restore(snaps[path])
                ev0, by0 = r.evictions, r.bypasses
                bad = r.apply(op)
                transitions += 1
                out["obs"]["invariant_evaluations"] += 1
                st = r.abstract()
                if r.evictions > ev0 or r.bypasses > by0:
                    interesting.add(repr((seen.get(st, path + (op,)))))
                    out["obs"]["evictions_observed"] += r.evictions - ev0
                    out["obs"]["oversize_bypasses_observed"] += r.bypasses - by0
                for sig, msg in bad:
                    out["viol"].append({"sig": sig, "msg": "budget %s, op sequence %s: %s"
                                        % (case["budget"], json.dumps(list(path) + [list(op)]), msg)})
                if bad:
                    continue
                if st not in seen:
                    seen[st] = path + (op,)
                    snaps[path + (op,)] = r.snapshot()
                    nxt.append(path + (op,))
            if len(out["viol"]) > 20:
                break
        for path in frontier:
            snaps.pop(path, None)
        frontier = nxt
        depth += 1
        if len(out["viol"]) > 20:
            break
    exhausted = not frontier
    out["obs"]["bfs_states"] += len(seen)
    out["obs"]["bfs_transitions"] += transitions
    tag = case["budget"] + ("" if case.get("nkeys", 3) == 3 else "/%dkeys" % case["nkeys"]) + (
        "" if case.get("values", "str") == "str" else "/" + case["values"])
    out["obs"]["bfs_closed_" + tag] = 1 if exhausted else 0
    out["obs"]["bfs_depth_" + tag] = depth
    out["nontrivial"] += ["%s:%s" % (case["budget"], s) for s in interesting]
    out["sample"] = {"budget": case["budget"], "states": len(seen), "depth": depth, "closed": exhausted,
                     "deepest_path": [list(o) for o in (max(seen.values(), key=len) if seen else ())]}


# ---------------------------------------------------------------- (b) histories on live back-ends
def run_hist(case, out):
    import sys as _sys

    rng = core.rng_for(case["seed"], ID, case["idx"])
    ops = storeops.gen_history(rng, case["length"])
    # end with a random forget sequence that removes everything
    tail = []
    for f in rng.sample(range(3), 3):
        if rng.random() < 0.5:
            tail.append(["forget_fn", f])
        else:
            tail += [["forget_call", f, a] for a in rng.sample(range(3), 3)]
    if rng.random() < 0.3:
        tail = [["forget_all"]]
    with env.Scratch() as sc:
        refs, vals = storeops.Refs("c"), storeops.values()
        b = env.fs_backend(sc.path("d"), cache_mb=BUDGETS[case["budget"]])
        cache = b._memory_cache
        root = sc.path("d")
        opened = []

        def hook(event, args):
            if event == "open" and isinstance(args[0], (str, os.PathLike)) and os.fspath(args[0]).startswith(root):
                opened.append(os.fspath(args[0]))

        _sys.addaudithook(hook)
        model = storeops.Model()
        mon = {"ev": 0}
        for step, op in enumerate(ops + tail):
            before_model = dict(model.d)
            model.apply(op)
            resident_value = False
            if op[0] == "read":
                key = cache._cache_key_for_fn(refs.refs[op[1]], refs.ah[op[1]][op[2]])
                e = cache.cache.get(key)
                resident_value = e is not None and e.has_value
            n_before = len(cache.cache)
            del opened[:]
            got = storeops.apply_backend(b, refs, vals, op, model_before=before_model)
            if op[0] == "memoize" and len(cache.cache) < n_before:
                mon["ev"] += 1
            if resident_value:
                out["obs"]["resident_reads_watched"] += 1
                data_opens = [p for p in opened if not p.endswith(".link")]
                if data_opens or opened:
                    out["viol"].append({"sig": "read of a resident value touched the underlying store",
                                        "msg": "budget %s step %d op %s opened %r; history %s"
                                        % (case["budget"], step, op, opened[:3], json.dumps(ops[:step + 1]))})
            out["obs"]["invariant_evaluations"] += 1
            for sig, msg in cache_invariant(cache):
                out["viol"].append({"sig": sig, "msg": "budget %s step %d op %s: %s; history %s"
                                    % (case["budget"], step, op, msg, json.dumps((ops + tail)[:step + 1]))})
            if out["viol"]:
                break
        else:
            out["obs"]["forget_sequences_checked"] += 1
            if cache.memory_usage != 0 or cache.cache:
                out["viol"].append({"sig": "usage not zero after everything was forgotten",
                                    "msg": "budget %s usage=%r resident=%r tail=%s history=%s"
                                    % (case["budget"], cache.memory_usage, sorted(cache.cache), tail, json.dumps(ops))})
        if mon["ev"]:
            out["obs"]["histories_with_eviction"] += 1
            out["nontrivial"].append("hist:%d:%d" % (case["seed"], case["idx"]))
        out["sample"] = {"budget": case["budget"], "ops": ops[:10], "forget_tail": tail}


def run_frames(case, out):
    import numpy as np
    import pandas as pd
    from twosigma.memento.storage_base import MemoryCache

    refs = storeops.Refs("c")
    rng = core.rng_for(case["seed"], ID, "frames", case["idx"])
    for rep in range(12):
        cache = MemoryCache(1)
        n = rng.choice([2000, 20000])
        vals = ["x"] * n
        for i in range(0, n, rng.choice([100, 200, 400])):
            vals[i] = "y" * rng.choice([20000, 200000])
        obj = pd.Series(vals) if rng.random() < 0.6 else pd.DataFrame({"a": vals, "b": range(n)})
        np.random.seed(case["idx"] * 100 + rep)  # (the sample of rows is drawn from numpy's global generator)
        f, a = KEYS[rep % len(KEYS)]
        cache.put(refs.memento(f, a, obj), obj, has_result=True)
        out["obs"]["invariant_evaluations"] += 1
        out["obs"]["frames_with_uneven_cells_put"] += 1
        for sig, msg in cache_invariant(cache):
            if len(out["viol"]) < 6:
                out["viol"].append({"sig": sig, "msg": "%s rows=%d sampling state %d: %s" % (type(obj).__name__, n, case["idx"] * 100 + rep, msg)})
        # then plain values up to several times the budget: the counter must keep what is resident within the budget
        for j in range(4):
            f2, a2 = KEYS[(rep + 1 + j) % len(KEYS)]
            v = "z" * 400000
            cache.put(refs.memento(f2, a2, v), v, has_result=True)
            for sig, msg in cache_invariant(cache):
                if len(out["viol"]) < 6:
                    out["viol"].append({"sig": sig, "msg": "after a %s with uneven cells (sampling state %d) and %d strings: %s"
                                                        % (type(obj).__name__, case["idx"] * 100 + rep, j + 1, msg)})
            out["obs"]["invariant_evaluations"] += 1


def run_case(case):
    if case.get("kind") == "frames":
        out = {"viol": [], "nontrivial": [], "obs": collections.Counter()}
        run_frames(case, out)
        out["obs"] = dict(out["obs"])
        return out
    if case.get("kind") == "repo_tests":
        from vf import repotests

        return repotests.as_case_result(repotests.run_suite_with_monitors(), "C06", "cache_invariant_evaluations")
    out = {"viol": [], "nontrivial": [], "obs": collections.Counter()}
    (run_bfs if case["kind"] == "bfs" else run_hist)(case, out)
    out["obs"] = dict(out["obs"])
    out["viol"] = out["viol"][:10]
    return out


def conclude(agg):
    closed = all(agg.obs.get("bfs_closed_" + b, 0) for b in BUDGETS)
    return core.first(core.need(agg, "invariant_evaluations", 2000),
                      core.need(agg, "evictions_observed", 50),
                      core.need(agg, "oversize_bypasses_observed", 10),
                      core.need(agg, "resident_reads_watched", 20),
                      core.need(agg, "forget_sequences_checked", 20),
                      core.need(agg, "repo_suite_cache_invariant_evaluations", 100)), {"exhaustive": bool(closed),
                                                                           "states": agg.obs.get("bfs_states", 0),
                                                                           "transitions": agg.obs.get("bfs_transitions", 0)}
