"""C04 — argument identity: the memo key is canonical in the bound argument values.

Monitors: arg_hash of every call presentation, hit/miss of every call (execution recorder +
unique result serials), the values the body actually received.
Oracle: an independent implementation of the documented cross-language algorithm
(vf.models.spec_arg_hash) plus metamorphic relations between presentations."""
import collections
import importlib
import os
import sys

from vf import core, domain, env, models

ID = "C04"
LEVEL = "exploration"
RULE = ("random signatures (0-3 positional-or-keyword parameters, 0-2 keyword-only, defaults, optional **kwargs) "
        "rendered into a real module; per call family: bound values from the supported argument domain (None, "
        "bool, int incl. huge, float incl. NaN/inf/-0.0, str incl. non-ASCII / lone surrogate, date, naive/aware "
        "datetime with whole-minute offsets, nested lists / string-keyed dicts, memento function references with "
        "partial arguments) and optional context arguments; every family is presented in up to 6 equivalent "
        "valid-Python ways (positional/keyword split, keyword order, dict insertion order, partial application in "
        "1-3 steps by position or by name, context attached before or after partial) and in near-miss variants "
        "(bool/int/float/str flips, date<->midnight datetime, naive<->aware, reordered list, renamed dict key, "
        "changed/added context argument); non-trivial = distinct families for which >=2 presentations were "
        "observed to share one result and >=1 near-miss was observed to run the body again"
        '; presentations include keyword partials completed by position'
        '; rounds 10-11: refused calls in front of families, the keys of the case computed again by four threads at once'
        '; round 12: strings with a backslash and the text JSON writes with that escape'
        '; round 13: every function defined again in the running process with another parameter list')
ASSUMPTIONS = ["the canonical form defines value equality: floats by repr, datetimes by fields + offset",
               "parameters left to their defaults are not bound: f(1) and f(1, y=<default>) are different keys",
               "FunctionReference arguments are encoded with the fields qualifiedName, partialArgs (null when empty), "
               "partialKwargs, parameterNames, as the implementation and stored documents do"]
TIMEOUT = 600


CALLS = []  # (function object as presented, args, kwargs, key) of the calls of the current case


def cases(tier, seed):
    n = 60 if tier == "quick" else 2000
    for i in range(n):
        yield {"seed": seed, "idx": i, "families": 50}


# ---------------------------------------------------------------- signatures
DEFAULTS = [None, 0, 5, "dflt", True, 2.5]


def gen_signature(rng, name):
    npos, nkw = rng.randint(0, 3), rng.randint(0, 2)
    pos, seen_default = [], False
    for i in range(npos):
        if seen_default or rng.random() < 0.4:
            seen_default = True
            pos.append(("p%d" % i, True, rng.choice(DEFAULTS)))
        else:
            pos.append(("p%d" % i, False, None))
    kwo = [("k%d" % i, rng.random() < 0.5, rng.choice(DEFAULTS)) for i in range(nkw)]
    return {"name": name, "pos": pos, "kwo": kwo, "varkw": rng.random() < 0.35}


def render(sigs):
    lines = ["import twosigma.memento as m", "from vf.recorder import REC", ""]
    for s in sigs:
        params = [n + ("=%r" % d if has else "") for n, has, d in s["pos"]]
        if s["kwo"]:
            params.append("*")
            params += [n + ("=%r" % d if has else "") for n, has, d in s["kwo"]]
        if s["varkw"]:
            params.append("**kw")
        names = [n for n, _, _ in s["pos"] + s["kwo"]]
        got = "{" + ", ".join(["%r: %s" % (n, n) for n in names] + (["'**': kw"] if s["varkw"] else [])) + "}"
        lines += ["@m.memento_function(version='1')", "def %s(%s):" % (s["name"], ", ".join(params)),
                  "    return REC.tick(%r, %s)" % (s["name"], got), ""]
    return "\n".join(lines)


# ---------------------------------------------------------------- values incl. function references
REFS = [("callee2", "vf.ffuncs:callee2#r1", ["a", "b"]), ("callee3", "vf.ffuncs:callee3#r2", ["p", "q", "r"]),
        ("ccallee", "c::vf.ffuncs:ccallee#r3", ["x", "y"])]


class FnVal:
    """Harness-side description of a function-reference argument."""

    def __init__(self, base, pargs, pkwargs):
        self.base, self.pargs, self.pkwargs = base, pargs, pkwargs

    def build(self):
        from vf import ffuncs

        f = getattr(ffuncs, REFS[self.base][0])
        if self.pargs or self.pkwargs:
            f = f.partial(*self.pargs, **self.pkwargs)
        return f

    def info(self):
        return (REFS[self.base][1], list(self.pargs), dict(self.pkwargs), REFS[self.base][2])

    def __repr__(self):
        return "FnVal(%s, %r, %r)" % (REFS[self.base][0], self.pargs, self.pkwargs)


def gen_value(rng, depth=2):
    r = rng.random()
    if r < 0.12:
        base = rng.randrange(len(REFS))
        names = REFS[base][2]
        npa = rng.randint(0, 1)
        pargs = [domain.gen_scalar(rng) for _ in range(npa)]
        pk = {}
        if rng.random() < 0.4:
            pk[names[-1]] = domain.gen_scalar(rng)
        return FnVal(base, pargs, pk)
    if depth > 0 and r < 0.3:
        return [gen_value(rng, depth - 1) for _ in range(rng.randint(0, 3))]
    if depth > 0 and r < 0.45:
        return {domain.gen_key(rng): gen_value(rng, depth - 1) for _ in range(rng.randint(0, 3))}
    return domain.gen_scalar(rng)


def build(v, shuffle=None):
    """Harness value -> the Python object passed to memento (dict insertion order optionally shuffled)."""
    if isinstance(v, FnVal):
        return v.build()
    if isinstance(v, list):
        return [build(x, shuffle) for x in v]
    if isinstance(v, dict):
        items = list(v.items())
        if shuffle is not None:
            shuffle.shuffle(items)
        return {k: build(x, shuffle) for k, x in items}
    return v


def to_spec(v):
    """Harness value -> value understood by models.spec_encode (FnVal handled through fn_info)."""
    return v


def fn_info(obj):
    return obj.info() if isinstance(obj, FnVal) else None


def received_equal(got, want):
    """Type-aware equality between what the body received and the harness value."""
    from twosigma.memento.types import MementoFunctionType

    if isinstance(want, FnVal):
        if not isinstance(got, MementoFunctionType):
            return False
        ref = got.fn_reference()
        qn, pargs, pkwargs, names = want.info()
        return (ref.qualified_name == qn and domain.eq(list(ref.partial_args or ()), pargs)
                and domain.eq(dict(ref.partial_kwargs or {}), pkwargs) and list(ref.parameter_names) == names)
    if isinstance(want, list):
        return type(got) is list and len(got) == len(want) and all(received_equal(g, w) for g, w in zip(got, want))
    if isinstance(want, dict):
        return type(got) is dict and set(got) == set(want) and all(received_equal(got[k], want[k]) for k in want)
    import datetime as _dt

    if isinstance(want, _dt.datetime) and want.tzinfo is not None:
        # the normalised value of an aware datetime is that instant's wall time with its FIXED offset (what the key's
        # ISO text says): a zone object whose offset depends on the date is not what the key was computed from
        if not isinstance(got, _dt.datetime) or got.tzinfo is None or got.tzinfo.utcoffset(None) != want.utcoffset():
            return False
    return domain.eq(got, want)


# ---------------------------------------------------------------- near misses
def near_misses(rng, v):
    """Values that differ from v in exactly one documented respect."""
    import datetime as dt

    out = []
    if isinstance(v, bool):
        out += [int(v), str(v)]
    elif isinstance(v, int):
        out += [float(v) if abs(v) < 2**53 else None, str(v), v + 1]
        if v in (0, 1):
            out.append(bool(v))
    elif isinstance(v, float):
        if v == v and v not in (float("inf"), float("-inf")) and v == int(v) and abs(v) < 2**53:
            out.append(int(v))
        out.append(-v if v == v else 0.0)
        out.append(repr(v))
    elif isinstance(v, str):
        out += [v + " ", None if v else "x"]
    elif isinstance(v, dt.datetime):
        if v.tzinfo is None:
            out.append(v.replace(tzinfo=dt.timezone.utc))
        else:
            out.append(v.replace(tzinfo=None))
            if v.utcoffset() != dt.timedelta(minutes=60) and 1 < v.year < 9999:
                out.append(v.astimezone(dt.timezone(dt.timedelta(minutes=60))))  # same instant, other offset
        if v.hour == v.minute == v.second == v.microsecond == 0 and v.tzinfo is None:
            out.append(v.date())
    elif isinstance(v, dt.date):
        out.append(dt.datetime(v.year, v.month, v.day))
    elif v is None:
        out += [False, 0, "", "None"]
    elif isinstance(v, list):
        if len(v) > 1:
            out.append(list(reversed(v)))
        out.append(v + [None])
    elif isinstance(v, dict):
        if v:
            k = sorted(v)[0]
            d = dict(v)
            d[k + "_"] = d.pop(k)
            out.append(d)
        out.append(dict(v, zzz=None))
    elif isinstance(v, FnVal):
        out.append(FnVal((v.base + 1) % len(REFS), [], {}))
        out.append(FnVal(v.base, list(v.pargs) + [1] if len(v.pargs) < 1 else [], dict(v.pkwargs)))
    return [x for x in out if x is not None or v is not None]


# ---------------------------------------------------------------- presentations
def presentations(rng, sig, bound, extras, n):
    pos_names = [p[0] for p in sig["pos"]]
    kmax = 0
    while kmax < len(pos_names) and pos_names[kmax] in bound:
        kmax += 1
    seen, out, total = set(), [], n
    if kmax >= 2 and rng.random() < 0.5:
        # keyword partials first, the final call passes the *remaining* parameters by position (they skip the
        # parameters a partial has bound by name)
        cand = pos_names[:kmax]
        K = [n_ for n_ in cand if rng.random() < 0.5] or [cand[0]]
        if len(K) == len(cand):
            K = K[:-1]
        R = [n_ for n_ in cand if n_ not in K]
        Rp = R[:rng.randint(1, len(R))]
        steps = rng.choice([1, 1, 2])
        kwsteps = [[] for _ in range(steps + 1)]
        for name in K:
            kwsteps[rng.randrange(steps)].append(name)
        rest = [n_ for n_ in bound if n_ not in K and n_ not in Rp] + list(extras)
        rng.shuffle(rest)
        for name in rest:
            kwsteps[rng.randrange(steps + 1)].append(name)
        out.append({"chunks": [[] for _ in range(steps)] + [Rp], "kwsteps": kwsteps, "ctx_pos": rng.randint(0, steps),
                    "shuffle_seed": rng.randrange(1 << 30)})
        seen.add((tuple(map(tuple, out[0]["chunks"])), tuple(map(tuple, kwsteps)), out[0]["ctx_pos"]))
    for _ in range(n * 3):
        k = rng.randint(0, kmax)
        positional = pos_names[:k]
        kwitems = [n_ for n_ in bound if n_ not in positional] + list(extras)
        rng.shuffle(kwitems)
        steps = rng.choice([0, 0, 1, 1, 2])
        cuts = sorted(rng.randint(0, k) for _ in range(steps))
        chunks, prev = [], 0
        for c in cuts + [k]:
            chunks.append(positional[prev:c])
            prev = c
        kwsteps = [[] for _ in range(steps + 1)]
        for name in kwitems:
            kwsteps[rng.randrange(steps + 1)].append(name)
        ctx_pos = rng.randint(0, steps)  # where the context is attached relative to partial steps
        key = (tuple(map(tuple, chunks)), tuple(map(tuple, kwsteps)), ctx_pos)
        if key in seen:
            continue
        seen.add(key)
        out.append({"chunks": chunks, "kwsteps": kwsteps, "ctx_pos": ctx_pos, "shuffle_seed": rng.randrange(1 << 30)})
        if len(out) == total:
            break
    return out


def apply_presentation(fn, pres, values, ctx):
    """Returns (callable, final positional args, final kwargs) following the presentation."""
    import random

    shuf = random.Random(pres["shuffle_seed"])
    g = fn
    steps = len(pres["chunks"]) - 1
    for i in range(steps):
        if ctx is not None and pres["ctx_pos"] == i:
            g = g.with_context_args(build(ctx, shuf))
        parent = g
        later = [n for ks in pres["kwsteps"][i:] for n in ks]
        if later and shuf.random() < 0.5:  # a sibling partial of the same parent, bound to other values, and dropped
            parent.partial(**{n: "sibling-%s" % n for n in shuf.sample(later, min(len(later), 2))})
        g = parent.partial(*[build(values[n], shuf) for n in pres["chunks"][i]],
                           **{n: build(values[n], shuf) for n in pres["kwsteps"][i]})
        if later and shuf.random() < 0.5:  # ... or derived after the one that is used
            parent.partial(**{n: "sibling-%s" % n for n in shuf.sample(later, min(len(later), 2))})
    if ctx is not None and pres["ctx_pos"] == steps:
        g = g.with_context_args(build(ctx, shuf))
    args = [build(values[n], shuf) for n in pres["chunks"][-1]]
    kwargs = {n: build(values[n], shuf) for n in pres["kwsteps"][-1]}
    return g, args, kwargs


def describe_call(sig, pres, values, ctx):
    parts = []
    for i, (c, k) in enumerate(zip(pres["chunks"], pres["kwsteps"])):
        items = [domain.describe(values[n], 40) for n in c] + ["%s=%s" % (n, domain.describe(values[n], 40)) for n in k]
        parts.append(("(" if i == len(pres["chunks"]) - 1 else ".partial(") + ", ".join(items) + ")")
    return sig["name"] + "".join(parts) + (" ctx=%s@%d" % (domain.describe(ctx, 60), pres["ctx_pos"]) if ctx else "")


def run_case(case):
    from vf.recorder import REC

    out = {"viol": [], "nontrivial": [], "obs": collections.Counter(), "sets": {"value_types": set()}}
    rng = core.rng_for(case["seed"], ID, case["idx"])

    def fail(sig, msg):
        if len(out["viol"]) < 10:
            out["viol"].append({"sig": sig, "msg": msg})

    with env.Scratch() as sc:
        modname = "vpsig_%d_%d" % (case["seed"], case["idx"])
        sigs = [gen_signature(rng, "f%d" % i) for i in range(6)]
        with open(sc.path(modname + ".py"), "w") as f:
            f.write(render(sigs))
        sys.path.insert(0, sc.root)
        mod = importlib.import_module(modname)
        st = env.mem_backend() if case["idx"] % 4 else env.fs_backend(sc.path("store"))
        env.set_env(sc.path("env"), default_storage=st, clusters={"c": env.mem_backend()})
        seen = {}
        del CALLS[:]
        for fam in range(case["families"]):
            sig = rng.choice(sigs)
            fn = getattr(mod, sig["name"])
            if rng.random() < 0.3:
                # a call the library refuses (a dictionary whose keys cannot be put in order) comes first: whatever it
                # leaves behind must not reach the keys of the calls that follow
                try:
                    first_param = (sig["pos"] + sig["kwo"])[0][0]
                    fn.fn_reference().with_args(**{first_param: {"b": 2, 1: "a"}}).arg_hash
                    out["obs"]["out_of_domain_calls_accepted"] += 1
                except Exception:
                    out["obs"]["refused_calls_made_before_a_family"] += 1
            values = {}
            for n, has, d in sig["pos"] + sig["kwo"]:
                if not has or rng.random() < 0.5:
                    values[n] = gen_value(rng)
            extras = []
            if sig["varkw"]:
                for n in rng.sample(["extra", "z9", "p9"], rng.randint(0, 2)):
                    values[n] = gen_value(rng)
                    extras.append(n)
            bound = {n: v for n, v in values.items()}
            ctx = None
            if rng.random() < 0.3:
                ctx = {rng.choice(["tenant", "asof", "k"]): gen_value(rng, 1) for _ in range(rng.randint(1, 2))}
                ctx = {k: v for k, v in ctx.items() if not isinstance(v, FnVal)} or {"tenant": 1}
            fam_id = "%d/%d/%d" % (case["seed"], case["idx"], fam)
            check_family(out, fail, rng, sig, fn, values, [n for n in values if n not in extras], extras, ctx, fam_id, REC, seen)
        # every function is defined again in the running process with another parameter list (the module is edited and
        # re-loaded): positional arguments bind to the parameters of the current definition
        if case["idx"] % 2 == 0:
            sigs2 = [gen_signature(rng, sg["name"]) for sg in sigs]
            with open(sc.path(modname + ".py"), "w") as f:
                f.write(render(sigs2))
            importlib.invalidate_caches()
            mod = importlib.reload(mod)
            out["obs"]["modules_redefined_in_process"] += 1
            for fam in range(min(6, case["families"])):
                sig = rng.choice(sigs2)
                fn = getattr(mod, sig["name"])
                values = {}
                for n, has, d in sig["pos"] + sig["kwo"]:
                    if not has or rng.random() < 0.5:
                        values[n] = gen_value(rng)
                extras = []
                if sig["varkw"]:
                    for n in rng.sample(["extra", "z9", "p9"], rng.randint(0, 2)):
                        values[n] = gen_value(rng)
                        extras.append(n)
                fam_id = "%d/%d/redefined-%d" % (case["seed"], case["idx"], fam)
                check_family(out, fail, rng, sig, fn, values, [n for n in values if n not in extras], extras, None, fam_id, REC, seen)
        # the keys of calls seen above, computed again by four threads at once (with frequent thread switches): every
        # key must be the one computed alone
        if CALLS:
            import threading

            sample = CALLS[:: max(1, len(CALLS) // 24)][:24]
            wrong = []

            def worker():
                for _ in range(3):
                    for g, args, kwargs, want in sample:
                        got = g.fn_reference().with_args(*args, _memento_context_args=g.context.recursive.context_args, **kwargs).arg_hash
                        if got != want:
                            wrong.append((want, got))

            old_interval = sys.getswitchinterval()
            sys.setswitchinterval(1e-6)
            try:
                threads = [threading.Thread(target=worker) for _ in range(4)]
                [t.start() for t in threads]
                [t.join() for t in threads]
            finally:
                sys.setswitchinterval(old_interval)
            out["obs"]["keys_computed_by_concurrent_threads"] += 12 * len(sample)
            if wrong:
                fail("arg_hash computed while other threads compute keys differs from the key computed alone",
                     "%d of %d keys differ, e.g. alone %s, concurrently %s" % (len(wrong), 12 * len(sample), wrong[0][0], wrong[0][1]))
        sys.path.remove(sc.root)
        out["sample"] = {"signatures": render(sigs).split("\n")[3:9]}
    out["obs"] = dict(out["obs"])
    out["sets"] = {k: sorted(v) for k, v in out["sets"].items()}
    return out


def note_types(out, v):
    out["sets"]["value_types"].add(type(v).__name__)
    if isinstance(v, list):
        for x in v:
            note_types(out, x)
    elif isinstance(v, dict):
        for x in v.values():
            note_types(out, x)


def one_call(out, fail, sig, fn, pres, values, ctx, REC, label):
    """Presents the call once. Returns (arg_hash, result serial, body_ran, received) or None."""
    try:
        g, args, kwargs = apply_presentation(fn, pres, values, ctx)
        fwa = g.fn_reference().with_args(*args, _memento_context_args=g.context.recursive.context_args, **kwargs)
        mark = REC.mark()
        res = g(*args, **kwargs)
        events = REC.since(mark)
    except Exception as e:
        import traceback

        fail("valid call presentation raises " + type(e).__name__,
             "%s: %s: %s" % (label, describe_call(sig, pres, values, ctx), traceback.format_exc()[-700:]))
        return None
    out["obs"]["calls"] += 1
    CALLS.append((g, args, kwargs, fwa.arg_hash))
    own = [e for e in events if e[0] == sig["name"]]
    return fwa.arg_hash, res, len(own), (own[0][1][0] if own else None)


def check_family(out, fail, rng, sig, fn, values, bound_names, extras, ctx, fam_id, REC, seen):
    for v in values.values():
        note_types(out, v)
    bound = dict(values)
    spec_bound = {n: values[n] for n in values}
    want_hash = models.spec_arg_hash(spec_bound, ctx, fn_info)
    base_key = (sig["name"], models.spec_canonical(spec_bound, ctx, fn_info))
    press = presentations(rng, sig, bound, extras, 6)
    first = None
    shared = 0
    for i, pres in enumerate(press):
        r = one_call(out, fail, sig, fn, pres, values, ctx, REC, "family %s" % fam_id)
        if r is None:
            return
        ah, res, ran, received = r
        out["obs"]["presentations"] += 1
        if ah != want_hash:
            fail("arg_hash differs from the documented algorithm",
                 "family %s %s: arg_hash %s, documented algorithm gives %s for canonical JSON %s"
                 % (fam_id, describe_call(sig, pres, values, ctx), ah, want_hash,
                    models.spec_canonical(spec_bound, ctx, fn_info)[:300]))
        if first is None:
            first = (ah, res)
            if base_key in seen:  # an earlier family of this case already made this very call
                if ran != 0 or res != seen[base_key]:
                    fail("call with bound values equal to an earlier call did not share its result",
                         "family %s %s ran %d" % (fam_id, describe_call(sig, pres, values, ctx), ran))
            elif ran != 1:
                fail("first presentation of a new call did not run the body exactly once",
                     "family %s %s ran %d" % (fam_id, describe_call(sig, pres, values, ctx), ran))
            seen[base_key] = res
            # (d) the body received the normalised values the key was computed from
            if received is not None:
                for n, has, d in sig["pos"] + sig["kwo"]:
                    want = values[n] if n in values else d
                    out["obs"]["received_values_checked"] += 1
                    if not received_equal(received.get(n), want):
                        fail("body received a value that differs from the argument passed",
                             "family %s parameter %s: passed %s, body received %s"
                             % (fam_id, n, domain.describe(want, 80), domain.describe(received.get(n), 80)))
                if sig["varkw"]:
                    ex = received.get("**") or {}
                    if set(ex) != set(extras) or not all(received_equal(ex[n], values[n]) for n in extras):
                        fail("body received wrong extra keyword arguments",
                             "family %s: passed %s got %s" % (fam_id, extras, domain.describe(ex, 100)))
        else:
            if ah != first[0]:
                fail("equivalent presentations of one call get different keys",
                     "family %s: %s -> %s but first presentation -> %s" % (fam_id, describe_call(sig, pres, values, ctx),
                                                                           ah, first[0]))
            if ran != 0 or res != first[1]:
                fail("equivalent presentation of a memoized call ran the body again",
                     "family %s: %s ran %d, result serial %r vs %r"
                     % (fam_id, describe_call(sig, pres, values, ctx), ran, res, first[1]))
            else:
                shared += 1
                out["obs"]["presentations_sharing_a_result"] += 1
    if not press or first is None:
        return
    # near misses: one bound value (or the context) changed in one documented respect
    reran = 0
    base_canon = models.spec_canonical(spec_bound, ctx, fn_info)
    candidates = []
    for n in values:
        for nv in near_misses(rng, values[n]):
            candidates.append((n, nv, ctx))
    if ctx:
        k = sorted(ctx)[0]
        for nv in near_misses(rng, ctx[k]):
            candidates.append((None, None, dict(ctx, **{k: nv})))
        candidates.append((None, None, dict(ctx, added=1)))
        candidates.append((None, None, None))
    else:
        candidates.append((None, None, {"added": 1}))
    rng.shuffle(candidates)
    for n, nv, nctx in candidates[:4]:
        v2 = dict(values)
        if n is not None:
            v2[n] = nv
        try:
            canon = models.spec_canonical(v2, nctx, fn_info)
        except TypeError:
            continue
        if canon == base_canon:
            continue
        pres = rng.choice(press)
        r = one_call(out, fail, sig, fn, pres, v2, nctx, REC, "near-miss of family %s" % fam_id)
        if r is None:
            continue
        ah, res, ran, received = r
        out["obs"]["near_miss_pairs"] += 1
        want2 = models.spec_arg_hash(v2, nctx, fn_info)
        if ah != want2:
            fail("arg_hash differs from the documented algorithm", "near-miss of family %s: %s" % (
                fam_id, describe_call(sig, pres, v2, nctx)))
        if (sig["name"], canon) in seen:
            if ran != 0 or res != seen[(sig["name"], canon)]:
                fail("call with bound values equal to an earlier call did not share its result",
                     "near-miss of family %s: %s ran %d" % (fam_id, describe_call(sig, pres, v2, nctx), ran))
            continue
        seen[(sig["name"], canon)] = res
        if ah == first[0] or ran != 1 or res == first[1]:
            fail("calls with different bound values share a key or a result",
                 "family %s: %s (canonical %s) vs changed %s=%s ctx=%s (canonical %s): hash equal=%s, body ran %d"
                 % (fam_id, describe_call(sig, press[0], values, ctx), base_canon[:200], n, domain.describe(nv, 60),
                    domain.describe(nctx, 60), canon[:200], ah == first[0], ran))
        else:
            reran += 1
    if shared >= 1 and reran >= 1:
        out["nontrivial"].append(fam_id)


def conclude(agg):
    return core.first(core.need(agg, "presentations", 2000), core.need(agg, "presentations_sharing_a_result", 1000),
                      core.need(agg, "near_miss_pairs", 1000), core.need(agg, "received_values_checked", 1000),
                      None if len(agg.sets.get("value_types", ())) >= 9 else "too few value types seen"), {}
