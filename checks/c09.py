"""C09 — concurrent callers: single flight per call, correct values, under every schedule.

Monitor: per controlled run the results of every thread, errors escaping to callers, body executions
per distinct call, deadlocks, the memory cache's accounts after the threads finish, call stacks.
Oracle: sequential executions of the same thread bodies (cache state, provenance records) + the execution
recorder + the cache invariant.
Schedules are driven by vf.sched (baton scheduler over sys.monitoring)."""
import collections
import hashlib
import itertools
import json
import os

from vf import core, domain, env, procs, sched

ID = "C09"
LEVEL = "exploration"
RULE = ("scenarios {same key x2, same key x3, different keys, two functions with identical result bytes, nested call "
        "f->g against a direct call of g, batch against a single call, two overlapping batches, three threads with two "
        "calls each over three keys, the same call through modifier clones (ignore_result / partial / force_local), a caller "
        "whose one-element batch is computed by another thread (provenance records compared)} x store {cold, warm store + cold cache, warm "
        "cache; cold in-heap storage backend} x cache budget {4 KiB (evictions), 16 MiB}; yield points: every line of runner_local.py, storage_memory.py and "
        "storage_base.py (thorough: also storage_filesystem.py), every function entry in the other memento modules; "
        "systematic driver: every schedule with one preemption (each yield point x each other thread, for each "
        "choice of the thread that starts), thorough adds sampled two-preemption schedules; random driver: uniform "
        "switch probabilities 0.02 / 0.1 / 0.3 and PCT priorities; non-trivial = distinct interleavings (distinct "
        "switch traces) in which at least one preemptive switch happened"
        '; rounds 7-9: three threads with nested calls (waiters for different calls at once), an automatically versioned function whose module is loaded afresh, and a scenario (two dependencies, different arguments per thread) in which every run gets a newly forked process'
        '; round 13: two calls whose results are partitions; the values served after the threads finished are judged'
        '; round 16: store kind cold_mem_cfg - the default cluster is built from a configuration dictionary and first used by the threads')
ASSUMPTIONS = ["yield injection happens at line boundaries where CPython itself may not switch; other CPython builds do",
               "with the 4 KiB budget only the accounting invariant is compared with sequential executions (resident "
               "sets legitimately depend on the interleaving of individually atomic cache operations)",
               "locks created through names the harness does not re-bind would show up as watchdog time-outs "
               "(inconclusive), never as violations"]
TIMEOUT = 1500
SCENARIOS = {
    "same_key": [[["produce", "k1"]], [["produce", "k1"]]],
    "same_key_3": [[["produce", "k1"]], [["produce", "k1"]], [["produce", "k1"]]],
    "diff_keys": [[["produce", "k1"]], [["produce", "k2"]]],
    "same_bytes": [[["produce", "k1"]], [["produce2", "k1"]]],
    "nested": [[["nest", "k1"]], [["produce", "k1"]]],
    # two callers of the outer call and one of the inner call (waiters for different calls at the same time)
    "nested_3": [[["nest", "k1"]], [["nest", "k1"]], [["produce", "k1"]]],
    "batch": [[["batch", ["k1", "k2"]]], [["produce", "k2"]]],
    "batch_overlap": [[["batch", ["k1", "k2"]]], [["batch", ["k2", "k1", "k2"]]]],
    "three_keys": [[["produce", "k1"], ["produce", "k3"]], [["produce", "k2"], ["produce", "k1"]], [["produce2", "k3"]]],
    # the same call through modifier clones (different function objects, one storage key)
    "clone_ignore": [[["produce", "k1"]], [["produce.ignore_result", "k1"]]],
    "clone_partial": [[["produce.partial", "k1"]], [["produce.force_local", "k1"]]],
    # provenance: outer reaches produce only through a one-element batch of nest, which another thread computes
    "provenance": [[["outer", "k1"]], [["nest", "k1"]]],
    # an automatically versioned function whose helper is defined below it: the first calls refresh its version
    "auto_version": [[["autov", "k1"]], [["autov", "k1"]]],
    # an automatically versioned function with two memento functions beneath it, called by two threads with different
    # arguments (nothing makes one wait for the other); every run in a process of its own, see FRESH_PROCESS
    "auto_two_deps": [[["autoboth", "k1"]], [["autoboth", "k2"]]],
    # two different calls whose results are partitions (stored key by key, with an index of their own)
    "partitions": [[["produce", "p1"]], [["produce", "p2"]]],
}
# scenarios whose runs each get a newly forked process: whatever the library builds lazily per process (tables filled at
# the first nested call, versions refreshed at the first query) is built while the threads run, in every run
FRESH_PROCESS = {"auto_two_deps"}
STORES = ["cold", "warm_store", "warm_cache"]
BUDGETS = {"4KiB": 4 * env.KIB, "16MiB": 16}
CHUNK = 300


def configs():
    # (the in-heap storage backend has no memory cache and no budget: one configuration per scenario)
    return [(s, st, b) for s in SCENARIOS for st in STORES for b in BUDGETS] + [(s, "cold_mem", "16MiB") for s in SCENARIOS] + [
        # ... and once more with the cluster described by a configuration dictionary rather than built around a backend object
        (s, "cold_mem_cfg", "16MiB") for s in SCENARIOS]


def cases(tier, seed):
    cfgs = configs()
    quick_sys = {(s, st, "4KiB") for s in list(SCENARIOS)[:6] for st in ("cold", "warm_store")} | {
        ("same_key", "warm_cache", "4KiB"), ("diff_keys", "cold", "16MiB"), ("batch", "warm_store", "16MiB"),
        ("same_key", "cold_mem", "16MiB"), ("nested", "cold_mem", "16MiB"), ("batch", "cold_mem", "16MiB"),
        ("same_key", "cold_mem_cfg", "16MiB"), ("diff_keys", "cold_mem_cfg", "16MiB"),
        ("auto_version", "cold", "16MiB"), ("auto_two_deps", "cold", "16MiB"), ("partitions", "cold", "16MiB"),
        ("partitions", "cold", "4KiB")}
    for ci, (s, st, b) in enumerate(cfgs):
        n = len(SCENARIOS[s])
        if tier == "thorough" or (s, st, b) in quick_sys:
            for first in (range(n) if tier == "thorough" else [ci % n]):
                for lo in range(0, 2400, CHUNK):
                    yield {"kind": "systematic", "scenario": s, "store": st, "budget": b, "first": first, "lo": lo,
                           "hi": lo + CHUNK, "tier": tier}
        for r in range(1 if tier == "quick" else 40):
            yield {"kind": "random", "scenario": s, "store": st, "budget": b, "seed": seed, "rep": r,
                   "count": 60 if tier == "quick" else 150, "tier": tier}
        if tier == "thorough":
            for r in range(20):
                yield {"kind": "two", "scenario": s, "store": st, "budget": b, "seed": seed, "rep": r, "count": 150, "tier": tier}


# ---------------------------------------------------------------- one controlled run
_MON = []


def ensure_monitor(tier):
    if not _MON:
        import twosigma.memento as m

        d = os.path.dirname(m.__file__)
        files = [os.path.join(d, "runner_local.py"), os.path.join(d, "storage_base.py"), os.path.join(d, "storage_memory.py"),
                 os.path.join(d, "storage_filesystem.py")]
        _MON.append(sched.Monitor(files, d))
        _MON.append(sched.install_locks())
    return _MON[1]


def _part(n):
    def make():
        from twosigma.memento.partition import InMemoryPartition

        return InMemoryPartition({"id": n, "only-in-%d" % n: "part %d" % n, "rows": [n * 10, n * 10 + 1]})
    return make


def table():
    return {"k1": "v1-" + "a" * 1500, "k2": "v2-" + "b" * 1500, "k3": "v3-" + "c" * 1500, "p1": _part(1), "p2": _part(2)}


def value_of(k):
    v = table()[k]
    return v() if callable(v) else v


def do_op(op):
    from vf import ffuncs

    if op[0] == "batch":
        return ffuncs.produce.call_batch([{"case_id": k} for k in op[1]])
    if op[0] == "produce.ignore_result":
        return ffuncs.produce.ignore_result()(op[1])
    if op[0] == "produce.force_local":
        return ffuncs.produce.force_local()(op[1])
    if op[0] == "produce.partial":
        return ffuncs.produce.partial(case_id=op[1])()
    return getattr(ffuncs, op[0])(op[1])


def expected_op(op):
    t = {k: value_of(k) for k in table()}
    if op[0] == "batch":
        return [t[k] for k in op[1]]
    if op[0] == "nest":
        return [t[op[1]], 1]
    if op[0] == "outer":
        return [t[op[1]], [t[op[1]], 1]]
    if op[0] == "autoboth":
        return [t[op[1]], t[op[1]]]
    if op[0] == "produce.ignore_result":
        return None
    return t[op[1]]


def entries_of(scenario):
    """Distinct (function, case id) entries a scenario touches."""
    out = set()
    for body in SCENARIOS[scenario]:
        for op in body:
            if op[0] == "batch":
                out |= {("produce", k) for k in op[1]}
            elif op[0] == "nest":
                out |= {("nest", op[1]), ("produce", op[1])}
            elif op[0] == "outer":
                out |= {("outer", op[1]), ("produce2", op[1]), ("nest", op[1]), ("produce", op[1])}
            elif op[0] == "autoboth":
                out |= {("autoboth", op[1]), ("produce", op[1]), ("produce2", op[1])}
            else:
                out.add((op[0].split(".")[0], op[1]))
    return out


def setup(root, scenario, store, budget):
    from vf import ffuncs

    if scenario == "auto_version":
        # the module is loaded afresh, as at the start of a process: the version computed while autov is registered
        # (its helper is not defined yet) is the stale one again
        import importlib

        importlib.reload(ffuncs)
    ffuncs.TABLE.update(table())
    st = env.mem_backend() if store == "cold_mem" else env.fs_backend(os.path.join(root, "data"), cache_mb=BUDGETS[budget])
    e = env.set_env(os.path.join(root, "env"), default_storage=st)
    if store == "cold_mem_cfg":
        # the default cluster comes from a configuration dictionary; nobody has used it before the threads start
        import twosigma.memento as m

        e.default_cluster = m.FunctionCluster(config={"name": "default", "storage": {"type": "memory"}})

        class _Later:  # (whatever the harness asks the backend afterwards is asked of the cluster's backend as it is then)
            def __getattr__(self, name):
                return getattr(m.Environment.get().default_cluster.storage, name)

        st = _Later()
    sched.reset_mutexes()
    if store not in ("cold", "cold_mem", "cold_mem_cfg"):
        for fn, k in sorted(entries_of(scenario)):
            getattr(ffuncs, fn)(k)
        if store == "warm_store":
            st._memory_cache.forget_everything()
    return st


def cache_state(st):
    c = getattr(st, "_memory_cache", None)
    if c is None:
        return [0, []]
    return [c.memory_usage, sorted((k.split("/")[0].split(":")[-1] + "/" + k[-6:], e.has_value) for k, e in c.cache.items())]


def provenance(scenario):
    """Recorded provenance of every entry of the scenario: ordered direct invocations and dependency set."""
    from vf import ffuncs

    out = {}
    for fn, k in sorted(entries_of(scenario)):
        m = getattr(ffuncs, fn).memento(k)
        if m is None:
            out["%s(%s)" % (fn, k)] = None
            continue
        out["%s(%s)" % (fn, k)] = [
            [[i.fn_reference.qualified_name, i.arg_hash] for i in m.invocation_metadata.invocations],
            sorted(r.qualified_name for r in m.function_dependencies)]
    return out


def ffuncs_mod():
    from vf import ffuncs

    return ffuncs


def make_body(ops, out_list):
    def body():
        from twosigma.memento.call_stack import CallStack

        res = [do_op(op) for op in ops]
        out_list.append(CallStack.get().depth())
        return res
    return body


PROV = []  # provenance records left by the sequential executions of the current case


def sequential_states(sc, scenario, store, budget):
    states = []
    del PROV[:]
    bodies = SCENARIOS[scenario]
    for n, perm in enumerate(itertools.permutations(range(len(bodies)))):
        st = setup(sc.path("seq%d" % n), scenario, store, budget)
        for i in perm:
            for op in bodies[i]:
                do_op(op)
        states.append(cache_state(st))
        prov = provenance(scenario)
        if prov not in PROV:
            PROV.append(prov)
    return states


def controlled_run(root, scenario, store, budget, strategy):
    from vf.recorder import REC
    from checks.c06 import cache_invariant

    st = setup(root, scenario, store, budget)
    mark = REC.mark()
    depths = []
    s = sched.Sched(strategy)
    s.run([make_body(ops, depths) for ops in SCENARIOS[scenario]])
    events = REC.since(mark)
    bad = []
    if s.inconclusive:
        return s, None, None
    if s.deadlock:
        bad.append(("deadlock", s.deadlock))
    for i, e in s.errors.items():
        import traceback

        bad.append(("an internal error escapes to a caller (%s)" % type(e).__name__,
                    "thread %d: %r\n%s" % (i, e, "".join(traceback.format_exception(type(e), e, e.__traceback__))[-900:])))
    for i, ops in enumerate(SCENARIOS[scenario]):
        if i in s.results:
            want = [expected_op(op) for op in ops]
            if not domain.eq(s.results[i], want):
                bad.append(("a caller receives a wrong value", "thread %d got %s" % (i, domain.describe(s.results[i], 200))))
    ran = collections.Counter((e[0], e[1][0]) for e in events)
    if not s.deadlock and not s.errors:
        for ent in entries_of(scenario):
            want = 0 if store not in ("cold", "cold_mem", "cold_mem_cfg") else 1
            if ran.get(ent, 0) != want:
                bad.append(("the body of a distinct call ran %s" % ("although it was memoized" if want == 0 else
                                                                     ("more than once" if ran.get(ent, 0) > 1 else "not at all")),
                            "%s(%s) ran %d times, expected %d" % (ent[0], ent[1], ran.get(ent, 0), want)))
        if any(d != 0 for d in depths):
            bad.append(("a thread's call stack is not empty after its calls returned", str(depths)))
    for sig, msg in (cache_invariant(st._memory_cache) if getattr(st, "_memory_cache", None) is not None else []):
        bad.append(("memory cache accounting after the threads finished: " + sig, msg))
    state = cache_state(st)
    if not bad:
        # every distinct call is memoized once the threads have finished: calling each again runs no body
        # (asked through a new, cache-less backend object over the same directory: what a later process would find)
        if not store.startswith("cold_mem"):
            env.set_env(os.path.join(root, "env-after"), default_storage=env.fs_backend(os.path.join(root, "data")))
        mark2 = REC.mark()
        for fn, k in sorted(entries_of(scenario)):
            try:
                later = getattr(ffuncs_mod(), fn)(k)
                # (what a later caller is served is the value of this very call)
                if not domain.eq(later, expected_op([fn, k])):
                    bad.append(("a caller receives a wrong value", "served after the threads finished: %s(%s) -> %s" % (fn, k, domain.describe(later, 150))))
            except Exception as e:
                bad.append(("a call made after the threads finished fails", "%s(%s): %r" % (fn, k, e)))
        again = [(e[0], e[1][0]) for e in REC.since(mark2)]
        if again:
            bad.append(("a call computed while threads ran concurrently is not memoized afterwards",
                        "bodies run again by sequential calls after the threads finished: %s" % again))
    if not bad:
        prov = provenance(scenario)
        if prov not in PROV:
            diff = {k: v for k, v in prov.items() if all(v != p.get(k) for p in PROV)}
            bad.append(("recorded provenance after the threads finished differs from every sequential execution",
                        "entries %s; sequential executions record %s" % (json.dumps(diff)[:600],
                                                                        json.dumps({k: PROV[0].get(k) for k in diff})[:600])))
    return s, bad, state


class _RunInfo:
    """What run_case needs to know about a scheduler after a run that happened in a child process."""

    def __init__(self, d):
        self.trace = [tuple(t) for t in d["trace"]]
        self.step, self.inconclusive = d["step"], d["inconclusive"]


def controlled(root, scenario, store, budget, strategy):
    if scenario not in FRESH_PROCESS:
        return controlled_run(root, scenario, store, budget, strategy)

    def child(_):
        s, bad, state = controlled_run(root, scenario, store, budget, strategy)
        return {"trace": [list(t) for t in s.trace], "step": s.step, "inconclusive": s.inconclusive,
                "bad": bad, "state": state}

    d = procs.in_child(child, None, timeout=180)
    return _RunInfo(d), (None if d["bad"] is None else [tuple(b) for b in d["bad"]]), d["state"]


def sequential(sc, scenario, store, budget):
    if scenario not in FRESH_PROCESS:
        return sequential_states(sc, scenario, store, budget)

    def child(_):
        return {"states": sequential_states(sc, scenario, store, budget), "prov": PROV}

    d = procs.in_child(child, None, timeout=180)
    PROV[:] = d["prov"]
    return d["states"]


def trace_id(s):
    return hashlib.sha1(json.dumps([(a, b, c) for a, b, c, _ in s.trace]).encode()).hexdigest()[:12]


def run_case(case):
    import random

    out = {"viol": [], "nontrivial": [], "obs": collections.Counter(), "sets": {"interleavings": set()}}
    rebound = ensure_monitor(case["tier"])
    scenario, store, budget = case["scenario"], case["store"], case["budget"]
    n = len(SCENARIOS[scenario])
    label = "scenario %s, %s, cache %s" % (scenario, store, budget)

    def fail(sig, msg):
        if len(out["viol"]) < 8:
            out["viol"].append({"sig": sig, "msg": msg})

    with env.Scratch() as sc:
        seq = sequential(sc, scenario, store, budget)
        runs = []
        if case["kind"] == "systematic":
            first = case["first"]
            base, bad, _ = controlled(sc.path("base"), scenario, store, budget, sched.PreemptAt({}, first))
            total = base.step
            out["obs"]["yield_points_in_unpreempted_run"] = total if case["lo"] == 0 else 0
            for k in range(max(case["lo"], 1), min(case["hi"], total + 1)):
                for t in range(n - 1):  # t-th of the other runnable threads
                    runs.append(("preempt at yield point %d -> other thread #%d (thread %d starts)" % (k, t, first),
                                 sched.PreemptAt({k: ("other", t)}, first), k * 10 + t))
            if case["lo"] == 0:
                runs.append(("no preemption (thread %d starts)" % first, sched.PreemptAt({}, first), 0))
        elif case["kind"] == "random":
            rng = core.rng_for(case["seed"], ID, scenario, store, budget, case["rep"])
            for j in range(case["count"]):
                r = random.Random(rng.randrange(1 << 60))
                if j % 4 == 3:
                    runs.append(("PCT priorities, seed %d" % j, sched.PCT(r, n, 1200, r.randint(1, 3)), j))
                else:
                    p = [0.02, 0.1, 0.3][j % 3]
                    runs.append(("random switches p=%s, seed %d" % (p, j), sched.RandomSwitch(r, p), j))
        else:  # two preemptions, sampled
            rng = core.rng_for(case["seed"], ID, "two", scenario, store, budget, case["rep"])
            base, bad, _ = controlled(sc.path("base"), scenario, store, budget, sched.PreemptAt({}, 0))
            for j in range(case["count"]):
                k1 = rng.randint(1, max(base.step, 2))
                k2 = rng.randint(k1 + 1, k1 + 60)
                first = rng.randrange(n)
                pts = {k1: ("other", rng.randrange(n - 1)), k2: ("other", rng.randrange(n - 1))}
                runs.append(("preempt at %s (thread %d starts)" % (pts, first), sched.PreemptAt(pts, first), j))
        for j, (what, strategy, tag) in enumerate(runs):
            s, bad, state = controlled(sc.path("r%d" % j), scenario, store, budget, strategy)
            out["obs"]["controlled_runs"] += 1
            if bad is None:
                out["obs"]["watchdog_firings"] += 1
                fail("INCONCLUSIVE", "%s, %s: %s" % (label, what, s.inconclusive))
                continue
            tid = trace_id(s)
            out["sets"]["interleavings"].add("%s/%s/%s/%s" % (scenario[:6], store[:6], budget[0], tid))
            pre = sum(1 for t in s.trace if t[3] == "preempt")
            out["obs"]["preemptive_switches"] += pre
            out["obs"]["yield_points_passed"] += s.step
            if pre:
                out["nontrivial"].append("%s/%s/%s/%s" % (scenario, store, budget, tid))
            # a call that ignores its result legitimately leaves a memento-only entry where, sequentially, the value
            # read by the other caller would have stayed: compare the resident key sets only
            relaxed = any(op[0] == "produce.ignore_result" for body in SCENARIOS[scenario] for op in body)
            keys = lambda stt: sorted(k for k, _ in stt[1])
            if budget == "16MiB" and not bad and relaxed:
                if keys(state) not in [keys(x) for x in seq]:
                    bad.append(("memory cache after the threads finished differs from every sequential execution",
                                "resident entries %s; sequential orders give %s" % (state, seq)))
            elif budget == "16MiB" and not bad and state[1] not in [x[1] for x in seq]:
                # (entries and whether they hold a value; the byte count itself may differ by the allocation slack of equal
                # objects - a list unpickled from the store vs one built by the body - and is judged by the accounting
                # invariant: usage = sum of booked sizes, booked size = the cache's own estimate of the resident value)
                bad.append(("memory cache after the threads finished differs from every sequential execution",
                            "final (usage, resident entries) %s; sequential orders give %s" % (state, seq)))
            elif not bad and state[0] not in {x[0] for x in seq} and budget == "16MiB":
                pass
            for sig, msg in bad:
                fail(sig, "%s, schedule: %s; switch trace %s: %s" % (label, what, [t[:3] for t in s.trace][:12], msg))
            if bad and len(out["viol"]) >= 8:
                break
        out["sample"] = {"scenario": scenario, "store": store, "budget": budget, "driver": case["kind"],
                         "runs": len(runs), "rebound_lock_names": rebound,
                         "last_switch_trace": [list(t) for t in (s.trace if runs else [])][:10]}
    inconc = [v for v in out["viol"] if v["sig"] == "INCONCLUSIVE"]
    out["viol"] = [v for v in out["viol"] if v["sig"] != "INCONCLUSIVE"]
    out["obs"] = dict(out["obs"])
    out["sets"] = {k: sorted(v) for k, v in out["sets"].items()}
    if inconc and not out["viol"]:
        raise RuntimeError("watchdog fired (inconclusive): " + inconc[0]["msg"])
    return out


def conclude(agg):
    return core.first(core.need(agg, "controlled_runs", 2000), core.need(agg, "preemptive_switches", 1500),
                      None if len(agg.sets.get("interleavings", ())) >= 1000 else "fewer than 1000 distinct interleavings",
                      None if agg.obs.get("watchdog_firings", 0) == 0 else "watchdog fired"), {
        "distinct_interleavings": len(agg.sets.get("interleavings", ()))}
