"""C03 — function versions are deterministic, so unchanged programs reuse stored results.

Monitors: the {function -> version} maps reported by real interpreters started with different
PYTHONHASHSEED values, definition orders and query orders; the execution trace of a second process
run against the store filled by a first one.  Oracle: equality of the maps; an empty trace."""
import collections
import json
import os
import subprocess

from vf import core, env, progs

ID = "C03"
LEVEL = "exploration"
RULE = ("generated two-module programs (C01's generator: every program has set and tuple constants, nested code, "
        "cross-module references, module variables, defaults, aliases, wrapped helpers) are imported by REAL "
        "interpreters with PYTHONHASHSEED in {0,1,2,3,...}, with the definitions of each module written in "
        "different orders and with versions queried in different orders (which also permutes module import "
        "order); then one interpreter calls every memento function on an empty store and a second one (other "
        "hash seed, other orders) calls them again with body executions traced to a file; non-trivial = "
        "distinct programs with >= 1 set constant and >= 3 auto-versioned functions"
        '; programs also carry dictionaries built from sets, a memento function as default value, a symbol bound at the end of the module under the name of a missing attribute, helpers defined twice'
        '; rounds 7-9: module-level modifier clones next to a third symbol, a builtin-named plain function as the only helper of the function registered last (asked first), a helpers-first definition order, a functools.partial object around a plain helper in half of the programs'
        '; rounds 10-11: a plug-in module filling a tracked list in place (imported first or last), memento functions defined twice with the old name kept (eight hash seeds for those)'
        '; round 12: equal numbers of different types (1, 1.0, True, 0, 0.0) read by different functions'
        '; round 15: module-level clones made right below their function and above a plain helper; every third interpreter registers one more memento function before the first query')
ASSUMPTIONS = ["each interpreter is a fresh process of /venv/bin/python importing the tree under test"]
TIMEOUT = 900
WORKERS = {"quick": 12, "thorough": 16}
CHILD = os.path.join(core.HERE, "vf", "c03_child.py")


def cases(tier, seed):
    n, seeds, orders = (12, 3, 4) if tier == "quick" else (150, 8, 5)
    for i in range(n):
        yield {"seed": seed, "idx": i, "hashseeds": seeds, "orders": orders}


def spawn(src, pkg, store, mode, order, hashseed, trace=None, plugin="last", late=""):
    envv = dict(os.environ, PYTHONPATH=os.pathsep.join([core.REPO, core.HERE]), PYTHONHASHSEED=str(hashseed),
                PYTHONDONTWRITEBYTECODE="1", OPENBLAS_NUM_THREADS="1")
    envv.pop("VF_TRACE_FILE", None)
    if trace:
        envv["VF_TRACE_FILE"] = trace
    p = subprocess.run([core.PY, CHILD, src, pkg, store, mode, json.dumps(order), plugin, late], env=envv, capture_output=True,
                       text=True, timeout=300)
    line = next((l for l in p.stdout.split("\n") if l.startswith("VFRESULT ")), None)
    if p.returncode != 0 or line is None:
        raise RuntimeError("interpreter failed (%s): %s" % (p.returncode, p.stderr[-800:]))
    return json.loads(line[len("VFRESULT "):])


def build_program(case):
    out = {"viol": [], "nontrivial": [], "obs": collections.Counter(), "sets": {"features": set()}}
    rng = core.rng_for(case["seed"], ID, case["idx"])
    # (two of three programs carry two helpers made by one factory: one code object, different defaults)
    prog = progs.gen_program(rng, "vp3_%d_%d" % (case["seed"], case["idx"]), n=rng.randint(4, 7), p_explicit=0.1,
                             p_factory=1.0 if case["idx"] % 3 else 0.3, p_diamond=0.8, min_memento=4 if case["idx"] % 2 else 2)
    # every program carries at least one set constant (the hash-seed sensitive feature)
    if not any(nd["sconst"] for nd in prog["nodes"]):
        prog["nodes"][0]["sconst"] = ["alpha", "beta", "gamma", "delta"]
    # ... and a project helper that shadows a builtin name (late definitions of such names are a special case)
    nodes = prog["nodes"]
    plain = [i for i, nd in enumerate(nodes) if nd["kind"] == "plain" and nd["mod"] != "e" and i > 0]
    named = [i for i in plain if nodes[i]["name"] in progs.BUILTIN_NAMES]
    if plain and not named:
        i = rng.choice(plain)
        old, new = nodes[i]["name"], rng.choice([b for b in progs.BUILTIN_NAMES if not any(nd["name"] == b for nd in nodes)])
        nodes[i]["name"] = new
        for nd in nodes:
            if nd["nested"] and nd["nested"].get("param") == old:
                nd["nested"]["param"] = new
        named = [i]
    for i in named:
        # ... called by bare name from a memento function of the same module defined above it (in the
        # mementos-first order the helper is still undefined when that function registers)
        users = [u for u in range(i) if nodes[u]["kind"] == "memento" and nodes[u]["mod"] == nodes[i]["mod"]]
        if users and not any(c["t"] == i and c["form"] == "bare" for u in users for c in nodes[u]["calls"]):
            nodes[rng.choice(users)]["calls"].append({"t": i, "form": "bare"})
    # ... and the memento function that is registered LAST in the mementos-first order (the lowest one of the module
    # imported last: no later registration makes anybody look at the names again) uses such a helper of its module
    last_mod = "b" if any(nd["mod"] == "b" and nd["kind"] == "memento" for nd in nodes) else "a"
    lasts = [u for u, nd in enumerate(nodes) if nd["mod"] == last_mod and nd["kind"] == "memento"]
    helpers = [i for i in plain if nodes[i]["mod"] == last_mod and lasts and i > lasts[0]]
    if lasts and helpers:
        i = next((h for h in helpers if nodes[h]["name"] in progs.BUILTIN_NAMES), helpers[0])
        if nodes[i]["name"] not in progs.BUILTIN_NAMES:
            free = [b for b in progs.BUILTIN_NAMES if not any(nd["name"] == b for nd in nodes)]
            if free:
                old = nodes[i]["name"]
                nodes[i]["name"] = free[0]
                for nd in nodes:
                    if nd["nested"] and nd["nested"].get("param") == old:
                        nd["nested"]["param"] = free[0]
        if nodes[i]["name"] in progs.BUILTIN_NAMES and not any(c["t"] == i and c["form"] == "bare" for c in nodes[lasts[0]]["calls"]):
            nodes[lasts[0]]["calls"].append({"t": i, "form": "bare"})
    if lasts and case["idx"] % 2 == 0:
        # aimed: that function's ONLY helper is a new plain function named like a builtin (nothing else it names is
        # defined after it in the mementos-first order, so nothing else makes the process look at late definitions)
        free = [b for b in progs.BUILTIN_NAMES if not any(nd["name"] == b for nd in nodes)]
        if free:
            nodes.append({"name": free[0], "mod": last_mod, "kind": "plain", "version": None, "params": [["x", None]], "kwonly": [],
                          "const": rng.randint(1, 9), "tconst": None, "sconst": None, "op": "+", "nested": None, "reads": [],
                          "calls": [], "wrap_param": None, "swap": False})
            u = nodes[lasts[0]]
            u["calls"] = [c for c in u["calls"] if nodes[c["t"]]["kind"] == "memento" and c["form"] in ("bare", "attr")]
            u["calls"].append({"t": len(nodes) - 1, "form": "bare"})
            u["nested"] = None
            u["only_builtin_named_helper"] = True
    # a memento function that reaches a plain helper is the default value of a parameter of another memento function of
    # its module (the default is evaluated when that function is defined: wherever the helper's definition stands)
    cands = [(u, t) for u in range(len(nodes)) for t in range(u + 1, len(nodes))
             if nodes[u]["kind"] == "memento" and nodes[t]["kind"] == "memento" and nodes[u]["mod"] == nodes[t]["mod"]
             and nodes[t]["version"] is None
             and any(nodes[j]["kind"] in ("plain", "wrapped") and nodes[j]["mod"] == nodes[t]["mod"] for j in progs.callees(prog, t, include_hidden=False))]
    if cands and case["idx"] % 2 == 0:
        u, t = rng.choice(cands)
        nodes[u]["cbdefault"] = t
        out["obs"]["programs_with_a_function_as_default_value"] += 1
    # a function of module b names one symbol twice: as an attribute of module a (which lacks it) and as a global of its
    # own module that is bound only at the end of the module (after the function was registered)
    cands = [(u, t) for u in range(len(nodes)) for t in range(u + 1, len(nodes))
             if nodes[u]["kind"] == "memento" and nodes[u]["mod"] == "b" and nodes[t]["mod"] == "b" and nodes[t]["kind"] in ("plain", "memento")]
    cands = [(u, t) for u, t in cands if not nodes[u].get("only_builtin_named_helper")]
    if cands and case["idx"] % 3 != 2:
        u, t = rng.choice(cands)
        nodes[u]["late_glob"] = "lg_%d" % u
        prog["aliases"].append({"name": "lg_%d" % u, "mod": "b", "target": t})
        out["obs"]["programs_with_a_symbol_bound_at_the_end_of_the_module"] += 1
    # a function calls a memento function of its module by its name and through a module-level modifier clone of it
    cands = [(u, t) for u in range(len(nodes)) for t in range(u + 1, len(nodes))
             if nodes[u]["kind"] == "memento" and nodes[t]["kind"] == "memento" and nodes[u]["mod"] == nodes[t]["mod"]
             and nodes[t]["mod"] in ("a", "b") and nodes[t]["version"] is None]
    cands = [(u, t) for u, t in cands if not nodes[u].get("only_builtin_named_helper")]
    if cands and case["idx"] % 3 == 2:
        u, t = rng.choice(cands)
        name = "cl_%s" % nodes[t]["name"]
        prog["aliases"].append({"name": name, "mod": nodes[u]["mod"], "target": t, "clone": True})
        if case["idx"] % 2 == 0 and nodes[u]["mod"] == nodes[t]["mod"] and any(
                nodes[j]["kind"] == "plain" and nodes[j]["mod"] == nodes[t]["mod"] for j in progs.callees(prog, t, include_hidden=False)):
            # ... the clone is made right below the definition of its function, above a plain helper that function uses (the
            # clone keeps the version the function had at that line - by construction, so the helper stays below it in every
            # definition order tried; import, hash seed and query order still vary)
            prog["aliases"][-1]["early"] = True
            prog["early_clone"] = True
            out["obs"]["programs_with_a_modifier_clone_made_above_a_helper"] += 1
        if not any(c["t"] == t and c["form"] == "bare" for c in nodes[u]["calls"]):
            nodes[u]["calls"].append({"t": t, "form": "bare"})
        nodes[u]["calls"].append({"t": t, "form": "alias", "alias": name})
        if case["idx"] % 2:  # ... and through a third symbol (attributes of its own name)
            nodes[u]["calls"].append({"t": t, "form": "mod_fl"})
        out["obs"]["programs_with_a_module_level_modifier_clone"] += 1
    # a memento function calls a plain helper of the package through a module-level functools.partial object (an object
    # without code of its own, whose repr carries a memory address)
    cands = [(u, t) for u in range(len(nodes)) for t in range(u + 1, len(nodes))
             if nodes[u]["kind"] == "memento" and nodes[u]["mod"] in ("a", "b") and nodes[t]["kind"] == "plain"
             and nodes[t]["mod"] in ("a", "b") and progs.MODS.index(nodes[t]["mod"]) >= progs.MODS.index(nodes[u]["mod"])]
    cands = [(u, t) for u, t in cands if not nodes[u].get("only_builtin_named_helper")]
    if not cands and case["idx"] % 2 == 1:  # no plain helper at hand: the program gets one
        us = [u for u in range(len(nodes)) if nodes[u]["kind"] == "memento" and nodes[u]["mod"] in ("a", "b")
              and not nodes[u].get("only_builtin_named_helper")]
        if us:
            u = rng.choice(us)
            nodes.append({"name": "hp%d" % len(nodes), "mod": nodes[u]["mod"], "kind": "plain", "version": None, "params": [["x", None]],
                          "kwonly": [], "const": rng.randint(1, 9), "tconst": None, "sconst": None, "op": "+", "nested": None,
                          "reads": [], "calls": [], "wrap_param": None, "swap": False})
            cands = [(u, len(nodes) - 1)]
    if cands and case["idx"] % 2 == 1:
        u, t = rng.choice(cands)
        name = "pt_%s" % nodes[t]["name"]
        prog["aliases"].append({"name": name, "mod": nodes[u]["mod"], "target": t, "partial": True})
        nodes[u]["calls"].append({"t": t, "form": "alias", "alias": name})
        out["obs"]["programs_with_a_partial_object_around_a_helper"] += 1
    # equal numbers of different types (1, 1.0, True) as variables read by different functions of different modules:
    # which of them a process meets first follows import, definition and query order
    if case["idx"] % 3 == 0:
        readers = [u for u, nd in enumerate(nodes) if nd["kind"] in ("memento", "plain") and nd["mod"] in ("a", "b")]
        if len(readers) >= 2:
            base = len(prog["vars"])
            for k, val in enumerate([1, 1.0, True, 0.0, 0]):
                u = readers[k % len(readers)]
                prog["vars"].append({"name": "GT%d" % k, "mod": nodes[u]["mod"], "type": "num", "value": val})
                nodes[u]["reads"].append({"v": base + k, "form": "bare"})
            out["obs"]["programs_with_equal_numbers_of_different_types"] += 1
    # a memento function that was defined twice (the name <function>_old still refers to the earlier definition, which
    # uses no helper): a function of its module calls both
    if case["idx"] % 4 == 3:
        cands = [(u, t) for u in range(len(nodes)) for t in range(u + 1, len(nodes))
                 if nodes[u]["kind"] == "memento" and nodes[t]["kind"] == "memento" and nodes[u]["mod"] == nodes[t]["mod"]
                 and nodes[t]["mod"] in ("a", "b") and nodes[t]["version"] is None and not nodes[t].get("prev")]
        cands = [(u, t) for u, t in cands if not nodes[u].get("only_builtin_named_helper") and nodes[u].get("cbdefault") != t
                 and not nodes[t].get("only_builtin_named_helper")]
        if cands:
            u, t = rng.choice(cands)
            nodes[t]["prev"] = {"const": rng.randint(1, 9)}
            if not any(nodes[c["t"]]["kind"] == "plain" and nodes[c["t"]]["mod"] == nodes[t]["mod"] for c in nodes[t]["calls"]):
                # (the current definition uses a plain helper of its module, the earlier one none)
                nodes.append({"name": "hq%d" % len(nodes), "mod": nodes[t]["mod"], "kind": "plain", "version": None, "params": [["x", None]],
                              "kwonly": [], "const": rng.randint(1, 9), "tconst": None, "sconst": None, "op": "+", "nested": None,
                              "reads": [], "calls": [], "wrap_param": None, "swap": False})
                nodes[t]["calls"].append({"t": len(nodes) - 1, "form": "bare"})
            if not any(c["t"] == t and c["form"] == "bare" for c in nodes[u]["calls"]):
                nodes[u]["calls"].append({"t": t, "form": "bare"})
            nodes[u]["calls"].append({"t": t, "form": "old"})
            out["obs"]["programs_with_a_memento_function_defined_twice"] += 1
    # a list variable of module a that a memento function of module b reads is filled in place by a third module (a
    # plug-in registering itself): whether that module is imported before or after the function's module must not matter
    if case["idx"] % 3 == 1 and any(nd["mod"] == "b" and nd["kind"] == "memento" for nd in nodes):
        lists = [j for j, v in enumerate(prog["vars"]) if v["mod"] == "a" and v["type"] == "list"]
        if not lists:
            prog["vars"].append({"name": "GP", "mod": "a", "type": "list", "value": [1, 2]})
            lists = [len(prog["vars"]) - 1]
        vj = rng.choice(lists)
        readers = [u for u, nd in enumerate(nodes) if nd["mod"] == "b" and nd["kind"] == "memento"]
        if not any(rd["v"] == vj for u in readers for rd in nodes[u]["reads"]):
            nodes[rng.choice(readers)]["reads"].append({"v": vj, "form": rng.choice(["attr", "bare"])})
        prog["plugin"] = "import %s.a as a\n\na.%s.append(%d)\n" % (prog["pkg"], prog["vars"][vj]["name"], rng.randint(3, 9))
        out["obs"]["programs_with_a_plug_in_module_filling_a_list_in_place"] += 1
    out["sets"]["features"] |= progs.features(prog)
    return prog, nodes, lasts, rng, out


def run_case(case):
    prog, nodes, lasts, rng, out = build_program(case)
    if out["obs"].get("programs_with_a_memento_function_defined_twice"):
        # (which of two names of one entity is met first follows the hash seed: more seeds for these programs)
        case = dict(case, hashseeds=max(case["hashseeds"], 8))
    fns = [[nd["mod"], nd["name"]] for nd in prog["nodes"] if nd["kind"] == "memento"]

    def fail(sig, msg):
        if len(out["viol"]) < 6:
            out["viol"].append({"sig": sig, "msg": msg + "\n" + progs.render_all(prog)[:3000]})

    with env.Scratch() as sc:
        maps = {}
        srcs = []
        for o in range(case["orders"]):
            order = list(range(len(prog["nodes"])))
            if prog.get("early_clone") and o >= 2:
                pass
            elif o == 1:
                # memento functions first, helpers afterwards: every helper is still undefined when its users register
                order.sort(key=lambda i: (prog["nodes"][i]["kind"] != "memento", -i))
            elif o == 2:
                # helpers first, memento functions afterwards: everything a function names is defined when it registers
                order.sort(key=lambda i: (prog["nodes"][i]["kind"] == "memento", -i))
            elif o:
                rng.shuffle(order)
            src = sc.path("src%d" % o)
            progs.write_package(prog, src, order=order)
            if prog.get("plugin"):
                with open(os.path.join(src, prog["pkg"], "p.py"), "w") as f:
                    f.write(prog["plugin"])
            srcs.append(src)
        k = 0
        for hs in range(case["hashseeds"]):
            for o, src in enumerate(srcs):
                q = list(fns)
                if k:
                    rng.shuffle(q)
                if o == 1 and lasts and [nodes[lasts[0]]["mod"], nodes[lasts[0]]["name"]] in q:
                    # (mementos-first order: the function registered last is asked first - nobody's query before it makes
                    # the process look at late definitions on its behalf)
                    fq = [nodes[lasts[0]]["mod"], nodes[lasts[0]]["name"]]
                    q = [fq] + [x for x in q if x != fq]
                k += 1
                # (every third interpreter registers one more memento function, elsewhere, between the imports and the first query)
                vm = spawn(src, prog["pkg"], sc.path("vstore%d" % k), "versions", q, hs if hs else 0, plugin=["last", "first"][k % 2],
                           late="late" if k % 3 == 2 else "")
                out["obs"]["interpreters_with_a_late_registration"] += int(k % 3 == 2)
                out["obs"]["interpreters_run"] += 1
                maps[(hs, o, tuple(n for _, n in q))] = vm
        distinct = {json.dumps(v, sort_keys=True) for v in maps.values()}
        out["obs"]["version_maps_compared"] += len(maps)
        if len(distinct) != 1:
            per_fn = collections.defaultdict(set)
            for v in maps.values():
                for n, ver in v.items():
                    per_fn[n].add(json.dumps(ver))
            bad = {n: sorted(v) for n, v in per_fn.items() if len(v) > 1}
            by_seed = {}
            for (hs, o, q), v in maps.items():
                by_seed.setdefault(json.dumps({n: v[n] for n in bad}, sort_keys=True), []).append("seed=%d/order=%d" % (hs, o))
            only_seed = all(len({x.split("/")[0] for x in runs}) == len(runs) or True for runs in by_seed.values())
            groups = list(by_seed.values())
            varies_with = ("hash seed" if all({x.split("/")[0] + "/" + o for x in g for o in {y.split("/")[1] for gg in groups for y in gg}} <= set(g)
                                            for g in groups) else "definition or query order")
            fail("versions of an unchanged program differ between processes (varies with the %s)" % varies_with,
                 "program %d/%d: functions %s got different versions; groups of runs that agree: %s"
                 % (case["seed"], case["idx"], bad, groups))
        # unchanged program, same store: the second process executes no body
        store = sc.path("store")
        first = spawn(srcs[0], prog["pkg"], store, "call", fns, 11, plugin="first")
        out["obs"]["interpreters_run"] += 1
        trace = sc.path("trace.txt")
        q = list(fns)
        rng.shuffle(q)
        second = spawn(srcs[-1], prog["pkg"], store, "call", q, 12, trace=trace, late="late" if case["idx"] % 2 else "")
        out["obs"]["interpreters_run"] += 1
        ran = open(trace).read().strip().split("\n") if os.path.exists(trace) and os.path.getsize(trace) else []
        out["obs"]["second_process_runs_checked"] += 1
        if ran:
            fail("a second process on the same store executed function bodies of an unchanged program",
                 "program %d/%d: bodies executed: %s" % (case["seed"], case["idx"], [r.split("\t")[1] for r in ran][:10]))
        norm = lambda d: {k: (v[:2] if v[0] == "raise" else v) for k, v in d.items()}  # replayed messages carry the trace
        if norm(first) != norm(second):
            fail("a second process on the same store returns different values", "%s vs %s" % (first, second))
        autos = sum(1 for nd in prog["nodes"] if nd["kind"] == "memento" and nd["version"] is None)
        if autos >= 3:
            out["nontrivial"].append("%d/%d" % (case["seed"], case["idx"]))
        out["sample"] = {"functions": fns, "version_map": next(iter(maps.values())), "interpreters": len(maps) + 2}
    out["obs"] = dict(out["obs"])
    out["sets"] = {k: sorted(v) for k, v in out["sets"].items()}
    return out


def conclude(agg):
    return core.first(core.need(agg, "interpreters_run", 60), core.need(agg, "second_process_runs_checked", 8)), {}
