"""C08 — a crash or I/O fault at any point of a write never poisons the filesystem store.

Monitor: every call made in fresh processes (and, for injected errors, in the same process) after a
fault was injected at one mutating filesystem operation of a memoizing call.
Oracle: expected values from the scenario table; bounded recovery: the first call after the faults
stopped may recompute, from the third call on no body may run."""
import collections
import errno
import json
import os

from vf import core, domain, env, faults, procs
from vf.worker import run_forked

ID = "C08"
LEVEL = "fault_enumeration"
RULE = ("per scenario {first call; second function with identical bytes already stored; re-memoize after forget; "
        "key-override result; None under an override key that had a value; partition result; separate metadata "
        "path; memory cache; exception result} a profiling run with deterministic version ids lists every mutating "
        "filesystem operation of the memoizing call (mkdir, open-for-write, rename, remove); EVERY operation is "
        "then faulted in a pristine child in every applicable variant: crash-before, crash-mid-write (file left "
        "with a prefix of its final content: empty, each path-separator boundary of a link / a third / half / "
        "all-but-one byte; thorough: every byte of every link), error on the operation (ENOSPC/EFBIG), error on "
        "write after n bytes, and a kernel-level file size limit (RLIMIT_FSIZE with SIGXFSZ ignored: the write(2) "
        "crossing the limit is cut short, the next one fails with EFBIG) at every size class of the files the "
        "scenario writes; afterwards three fresh processes call the function and a second function producing "
        "byte-identical results; non-trivial = distinct (scenario, operation, variant, prefix) fault points at "
        "which the fault was observed to fire"
        '; scenarios include an array result larger than the memory cache that the caller keeps'
        '; rounds 7-9: a chain of partitions, recovery ending with a forget'
        '; round 12: two earlier calls stored under the override key the faulted call writes to, judged in the fresh processes'
        '; round 14: scenario override_next - other calls are the first to write under the override key after the fault')
ASSUMPTIONS = ["a crash is os._exit at the failpoint (no Python-level cleanup runs); durability of completed writes "
               "is the file system's business", "faults are injected into mutating operations only",
               "bounded recovery: the first call after faults stop may recompute, the third must be served"]
TIMEOUT = 1800
WORKERS = {"quick": 16, "thorough": 16}
SCENARIOS_QUICK = ["first", "same_bytes", "override", "override_shared", "override_next", "exception", "big", "big_small_cache", "array_small_cache", "partition_chain"]
SCENARIOS_ALL = ["first", "same_bytes", "after_forget", "override", "none_override", "partition", "metadata_path",
                 "memory_cache", "exception", "big", "big_same_bytes", "big_small_cache", "array_small_cache", "partition_chain",
                 "override_shared", "override_next"]
VARIANTS = ["crash-before", "crash-mid", "error", "error-write", "fsize"]
BIG = 300 * 1024


def cases(tier, seed):
    for sc_name in (SCENARIOS_QUICK if tier == "quick" else SCENARIOS_ALL):
        for variant in VARIANTS:
            yield {"scenario": sc_name, "variant": variant, "tier": tier, "seed": seed}


# ---------------------------------------------------------------- scenarios
def table(scenario):
    """case id -> value factory (what the bodies of produce / produce2 return)."""
    from twosigma.memento.partition import InMemoryPartition
    from twosigma.memento.result import KeyOverrideResult

    if scenario in ("override", "override_shared", "override_next"):
        return lambda: KeyOverrideResult("payload-" + "z" * 40, "ovr/key1")
    if scenario == "none_override":
        return lambda: KeyOverrideResult(None, "ovr/key1")
    if scenario == "partition":
        return lambda: InMemoryPartition({"a": 1, "b": "x" * 30, "c": [1, 2]})
    if scenario == "exception":
        return ("__raise__", ValueError, ("scenario failure",))
    if scenario == "partition_chain":  # a partition whose merge parent is computed (and memoized) inside the same call
        return [{"kind": "mem", "make": lambda: {"a": 1, "b": 2, "c": "x" * 20}, "container": "dict"},
                {"kind": "mem", "make": lambda: {"b": 3, "z": 26}, "container": "dict"}]
    if scenario.startswith("big"):
        return "big-" + "y" * BIG
    if scenario == "array_small_cache":  # larger than the cache, and the callers keep what they were handed
        import numpy as np

        return lambda: np.arange(3000, dtype="int64")
    return "result-string-" + "y" * 30


def expected(scenario):
    from twosigma.memento.partition import InMemoryPartition

    if scenario in ("override", "override_shared", "override_next"):
        return ("ret", "payload-" + "z" * 40)
    if scenario == "none_override":
        return ("ret", None)
    if scenario == "partition":
        return ("ret", InMemoryPartition({"a": 1, "b": "x" * 30, "c": [1, 2]}))
    if scenario == "exception":
        return ("raise", "ValueError")
    if scenario == "partition_chain":
        return ("ret", InMemoryPartition({"a": 1, "b": 3, "c": "x" * 20, "z": 26}))
    if scenario.startswith("big"):
        return ("ret", "big-" + "y" * BIG)
    if scenario == "array_small_cache":
        import numpy as np

        return ("ret", np.arange(3000, dtype="int64"))
    return ("ret", "result-string-" + "y" * 30)


def install(root, scenario):
    from vf import ffuncs

    meta = os.path.join(root, "meta") if scenario == "metadata_path" else None
    cache = 16 if scenario == "memory_cache" else (4 * env.KIB if scenario in ("big_small_cache", "array_small_cache") else None)  # (large result, tiny cache)
    st = env.fs_backend(os.path.join(root, "data"), cache_mb=cache, metadata_path=meta)
    env.set_env(os.path.join(root, "env"), default_storage=st)
    ffuncs.TABLE["s"] = table(scenario)
    if scenario == "override_shared":
        # two earlier calls of another function stored their (different) results under the override key that the
        # faulted call is going to write to
        from twosigma.memento.result import KeyOverrideResult

        for k in (1, 2):
            ffuncs.TABLE["setup|%d" % k] = (lambda k=k: KeyOverrideResult("earlier-%d-" % k + "e" * 30, "ovr/key1"))
    if scenario == "override_next":
        # after the fault, the next results written under the override key of the faulted call are those of two other
        # calls (different values): nothing that the interrupted write left behind may end up as their result
        from twosigma.memento.result import KeyOverrideResult

        for k in (1, 2):
            ffuncs.TABLE["later|%d" % k] = (lambda k=k: KeyOverrideResult("later-%d-" % k + "e" * 30, "ovr/key1"))
    return st


def others(scenario):
    """(value ok?, body executions) of the calls that stored under the shared override key before the fault."""
    from vf import ffuncs
    from vf.recorder import REC

    out = []
    if scenario in ("override_shared", "override_next"):
        word = "setup" if scenario == "override_shared" else "later"
        for k in (1, 2):
            mark = REC.mark()
            try:
                got = ffuncs.pair(word, k)
            except Exception as e:
                got = "raise %s: %s" % (type(e).__name__, str(e)[:100])
            out.append([got == ("earlier" if word == "setup" else "later") + "-%d-" % k + "e" * 30, len(REC.since(mark)), repr(got)[:80]])
    return out


_KEPT = []


def fn_f(scenario):
    from vf import ffuncs

    if scenario == "partition_chain":
        return lambda s_: ffuncs.chain(s_, 1)
    return ffuncs.produce


def fn_g(scenario):
    """A second function producing byte-identical results."""
    from vf import ffuncs

    if scenario == "partition_chain":
        return lambda s_: ffuncs.passthru(s_, 1)
    return ffuncs.produce2


FIRST_RUNS = {"partition_chain": 2}  # bodies run by the first call on an empty store (the parent is computed inside)


def outcome(fn, scenario):
    """(ok?, body executions, description) of one call compared with the scenario's expectation."""
    from vf.recorder import REC

    want = expected(scenario)
    mark = REC.mark()
    try:
        got = ("ret", fn("s"))
        _KEPT.append(got)  # the caller goes on using what it was handed
    except Exception as e:
        got = ("raise", type(e).__name__, str(e)[:160])
    ran = len(REC.since(mark))
    if want[0] == "raise":
        ok = got[0] == "raise" and got[1] == want[1]
    else:
        ok = got[0] == "ret" and domain.eq_safe(got[1], want[1])[0]
    return [bool(ok), ran, domain.describe(got, 160)]


def det_uuid():
    import uuid

    import twosigma.memento.storage_filesystem as sf

    counter = [0]

    def fake():
        counter[0] += 1
        return uuid.UUID(int=counter[0])

    sf.uuid4 = fake


def faulted_child(arg):
    """Setup (unfaulted), then the memoizing call with the failpoint armed, then same-process calls."""
    from vf import ffuncs

    root, scenario = arg["root"], arg["scenario"]
    det_uuid()
    f = faults.Faults(root)
    install(root, scenario)
    if scenario in ("same_bytes", "big_same_bytes"):
        ffuncs.produce2("s")
    elif scenario == "after_forget":
        ffuncs.produce("s")
        ffuncs.produce.forget("s")
    elif scenario == "override_shared":
        ffuncs.pair("setup", 1)
        ffuncs.pair("setup", 2)
    elif scenario == "none_override":
        from twosigma.memento.result import KeyOverrideResult

        ffuncs.TABLE["setup|1"] = lambda: KeyOverrideResult("earlier-value", "ovr/key1")
        ffuncs.pair("setup", 1)  # a third function owns the value that the override key had before
    fault = arg.get("fault")
    if fault is not None and fault["variant"] == "fsize":
        # kernel-level fault: no file may grow beyond `limit` bytes while the memoizing call runs; a write
        # crossing the limit is cut short by the kernel and the next one fails with EFBIG
        import resource
        import signal

        signal.signal(signal.SIGXFSZ, signal.SIG_IGN)
        soft, hard = resource.getrlimit(resource.RLIMIT_FSIZE)
        resource.setrlimit(resource.RLIMIT_FSIZE, (fault["limit"], hard))
        f.active = True
        try:
            first = outcome(fn_f(scenario), scenario)
        finally:
            resource.setrlimit(resource.RLIMIT_FSIZE, (soft, hard))
        f.active = False
        f.fired = True
    else:
        f.armed = fault
        f.active = True
        first = outcome(fn_f(scenario), scenario)
        f.active = False
    res = {"ops": f.log, "fired": f.fired, "first": first}
    if arg.get("snapshot"):
        final = {}
        moved = {src: rel for _, kind, rel, src in f.log if kind == "rename" and src}
        for _, kind, rel, _x in f.log:
            p = os.path.join(root, moved.get(rel, rel))  # a temporary file ends up under its final name
            if kind == "open-w" and os.path.isfile(p):
                with open(p, "rb") as fh:
                    final[rel] = fh.read().hex()
        res["final"] = final
    # the process lives on after an injected error: the same calls again, and the twin function
    res["same_process"] = [outcome(fn_f(scenario), scenario), outcome(fn_g(scenario), scenario),
                           outcome(fn_f(scenario), scenario), outcome(fn_g(scenario), scenario)]
    res["others"] = others(scenario)
    return res


def recovery_child(arg):
    from vf import ffuncs

    install(arg["root"], arg["scenario"])
    # (in scenario override_next the other calls are the first to write after the fault, and are then made once more)
    early = others(arg["scenario"]) if arg["scenario"] == "override_next" else None
    res = {"f": outcome(fn_f(arg["scenario"]), arg["scenario"]), "g": outcome(fn_g(arg["scenario"]), arg["scenario"]),
           "others": others(arg["scenario"])}
    if early is not None:
        res["others"] = [[a[0] and b[0], b[1], "%s, then %s" % (a[2], b[2])] for a, b in zip(early, res["others"])]
    if arg.get("forget"):
        # at the very end: the call is forgotten (whatever the interrupted write left behind) and made once more
        try:
            if arg["scenario"] == "partition_chain":
                ffuncs.chain.forget("s", 1)
            else:
                ffuncs.produce.forget("s")
            res["forget"] = None
        except Exception as e:
            res["forget"] = "%s: %s" % (type(e).__name__, str(e)[:200])
        res["f_after_forget"] = outcome(fn_f(arg["scenario"]), arg["scenario"])
    return res


# ---------------------------------------------------------------- enumeration
def prefixes(rel, content, tier):
    """Prefix lengths of the final content left behind by a crash in the middle of a write."""
    n = len(content)
    cuts = {0, n // 3, n // 2, max(n - 1, 0)}
    if rel.endswith((".link", ".link.tmp")):
        seps = [i for i, b in enumerate(content) if b == 0x2F]
        if tier == "thorough":
            cuts |= set(range(n))
        else:
            cuts |= set(seps[:2]) | set(seps[-3:]) | {s + 1 for s in seps[-2:]} | {seps[len(seps) // 2] + 3 if seps else 0}
    return sorted(c for c in cuts if 0 <= c < n)


def fault_points(ops, final, variant, tier, rng):
    pts = []
    if variant == "fsize":
        sizes = sorted({len(v) // 2 for v in final.values()})  # hex -> bytes
        limits = {0}
        for n in sizes:
            limits |= {n - 1, n // 2, n // 3} if n > 0 else set()
        limits = sorted(l for l in limits if 0 <= l < max(sizes + [1]))
        if tier == "quick" and len(limits) > 10:
            limits = limits[:4] + limits[-6:]
        for l in limits:
            hit = sorted({faults.role_of(rel) for rel, v in final.items() if len(v) // 2 > l})
            pts.append({"index": None, "variant": variant, "limit": l, "cut": l, "hit": hit})
        return pts
    for idx, kind, rel, _src in ops:
        if variant == "crash-before":
            pts.append({"index": idx, "variant": variant})
        elif variant == "error":
            pts.append({"index": idx, "variant": variant, "errno": rng.choice([errno.ENOSPC, errno.EFBIG, errno.EIO])})
        elif kind == "open-w" and rel in final:
            content = bytes.fromhex(final[rel])
            for cut in prefixes(rel, content, tier):
                if variant == "crash-mid":
                    pts.append({"index": idx, "variant": variant, "prefix": content[:cut].hex(), "cut": cut})
                else:
                    pts.append({"index": idx, "variant": variant, "limit": cut, "cut": cut,
                                "errno": rng.choice([errno.ENOSPC, errno.EFBIG])})
    return pts


def run_case(case):
    out = {"viol": [], "nontrivial": [], "obs": collections.Counter(), "sets": {"operations": set()}}
    scenario, variant, tier = case["scenario"], case["variant"], case["tier"]
    rng = core.rng_for(case["seed"], ID, scenario, variant)

    def fail(sig, msg):
        if len(out["viol"]) < 10:
            out["viol"].append({"sig": sig, "msg": msg})

    with env.Scratch() as sc:
        prof = procs.in_child(faulted_child, {"root": sc.path("profile"), "scenario": scenario, "snapshot": True})
        if not prof["first"][0] or prof["first"][1] != FIRST_RUNS.get(scenario, 1) or not all(o[0] for o in prof["same_process"]):
            raise RuntimeError("profiling run of scenario %s misbehaves: %s" % (scenario, prof))
        ops = prof["ops"]
        for _, kind, rel, _src in ops:
            out["sets"]["operations"].add("%s %s" % (kind, "directory" if kind == "mkdir" else faults.role_of(rel)))
        out["obs"]["operations_profiled"] += len(ops)
        pts = fault_points(ops, prof["final"], variant, tier, rng)
        for n, fp in enumerate(pts):
            idx = fp["index"]
            root = sc.path("f%d" % n)
            arm = dict(fp)
            if "prefix" in arm:
                arm["prefix"] = bytes.fromhex(arm["prefix"])
            if variant == "fsize":
                label = "scenario %s, file size limit %d bytes while memoizing (cuts short: %s)" % (
                    scenario, fp["limit"], ", ".join(fp["hit"]))
                sigbase = "(write cut short by a file size limit, kernel EFBIG; largest file affected: %s)" % (
                    "data object" if "data object" in fp["hit"] else (fp["hit"] or ["none"])[0])
                out["obs"]["kernel_level_size_limits_injected"] += 1
            else:
                _, kind, rel, _src = ops[idx]
                label = "scenario %s, operation %d/%d (%s %s: %s), %s%s" % (
                    scenario, idx, len(ops), kind, faults.role_of(rel), rel, variant,
                    " after %d bytes" % fp["cut"] if "cut" in fp else "")
                sigbase = "(%s of the %s, %s)" % (kind, faults.role_of(rel), variant)
            rep = run_forked(faulted_child, {"root": root, "scenario": scenario, "fault": arm}, 120)
            crashed = False
            if "res" in rep:
                r = rep["res"]
                if not r["fired"]:
                    raise RuntimeError("failpoint did not fire: %s (ops seen %s)" % (label, r["ops"]))
                out["obs"]["faults_fired"] += 1
                # an injected error must not surface to the caller, now or later in the same process
                for who, o in [("the faulted call", r["first"])] + list(zip(
                        ["f again", "g", "f third", "g again"], r["same_process"])):
                    out["obs"]["same_process_calls_judged"] += 1
                    if not o[0]:
                        fail("after an injected I/O error a call in the same process fails or returns a wrong value " + sigbase,
                             "%s: %s -> %s" % (label, who, o[2]))
                if r["same_process"][2][1] or r["same_process"][3][1]:
                    fail("after an injected I/O error memoization does not recover in the same process " + sigbase,
                         "%s: bodies still run on later calls: f %d, g %d" % (label, r["same_process"][2][1], r["same_process"][3][1]))
            else:
                if "status %r" % (faults.EXIT_CODE << 8,) not in rep.get("err", "") and str(faults.EXIT_CODE << 8) not in rep.get("err", ""):
                    raise RuntimeError("faulted child failed unexpectedly: %s: %s" % (label, rep))
                crashed = True
                out["obs"]["faults_fired"] += 1
                out["obs"]["crashes_injected"] += 1
            out["nontrivial"].append("%s|%s|%s|%s" % (scenario, idx, variant, fp.get("cut")))
            # recovery, observed in fresh processes on the damaged store
            runs = []
            for k in range(3):
                try:
                    runs.append(procs.in_child(recovery_child, {"root": root, "scenario": scenario, "forget": k == 2}))
                except procs.ChildFailed as e:
                    fail("a fresh process on the damaged store dies " + sigbase, "%s: process %d: %s" % (label, k + 1, str(e)[-400:]))
                    break
            for k, r in enumerate(runs):
                for n_o, (ok, ran, shown) in enumerate(r.get("others", [])):
                    out["obs"]["recovery_calls_judged"] += 1
                    if not ok:
                        fail("after the fault a call fails or returns a wrong value " + sigbase,
                             "%s: fresh process %d, other call %d under the shared override key -> %s" % (label, k + 1, n_o + 1, shown))
                    if k == 2 and ran:
                        fail("memoization does not recover: the body still runs in the third fresh process " + sigbase,
                             "%s: earlier call %d under the shared override key ran %s times in fresh processes 1/2/3"
                             % (label, n_o + 1, "/".join(str(x["others"][n_o][1]) for x in runs)))
                for who in ("f", "g"):
                    out["obs"]["recovery_calls_judged"] += 1
                    if not r[who][0]:
                        fail("after the fault a call fails or returns a wrong value " + sigbase,
                             "%s: fresh process %d, %s -> %s" % (label, k + 1, "the function" if who == "f" else
                                                                "a second function with identical result bytes", r[who][2]))
            if len(runs) == 3:
                out["obs"]["forgets_after_recovery"] += 1
                if runs[2].get("forget") is not None:
                    fail("after the fault, forgetting the call raises " + sigbase, "%s: forget in the third fresh process: %s" % (label, runs[2]["forget"]))
                elif not runs[2]["f_after_forget"][0]:
                    fail("after the fault a call fails or returns a wrong value " + sigbase,
                         "%s: the call made after forgetting it -> %s" % (label, runs[2]["f_after_forget"][2]))
                out["obs"]["recoveries_observed"] += 1
                out["obs"]["recomputed_in_first_fresh_process"] += int(runs[0]["f"][1] > 0)
                for who in ("f", "g"):
                    if runs[2][who][1]:
                        fail("memoization does not recover: the body still runs in the third fresh process " + sigbase,
                             "%s: %s ran %d/%d/%d times in fresh processes 1/2/3" % (
                                 label, who, runs[0][who][1], runs[1][who][1], runs[2][who][1]))
        out["obs"]["fault_points"] += len(pts)
        out["sample"] = {"scenario": scenario, "variant": variant,
                         "operations": [[k, faults.role_of(r), r] for _, k, r, _s in ops], "fault_points": len(pts)}
    out["obs"] = dict(out["obs"])
    out["sets"] = {k: sorted(v) for k, v in out["sets"].items()}
    return out


def conclude(agg):
    return core.first(core.need(agg, "faults_fired", 100), core.need(agg, "recoveries_observed", 100),
                      core.need(agg, "crashes_injected", 40), core.need(agg, "kernel_level_size_limits_injected", 15), core.need(agg, "same_process_calls_judged", 100)), {
        "exhaustive": True, "fault_points": agg.obs.get("fault_points", 0)}
