"""C11 — the JSON metadata codec round-trips and keeps its cross-language wire format.

Monitors: decode(encode(m)) compared field by field, the argument hash recomputed from the
decoded arguments, json.dumps/loads stability of the document, a hand-written structural
validator of the wire format, committed golden documents written by the unchanged tree."""
import collections
import datetime as dt
import json
import os

from vf import core, domain, env
from checks.c04 import FnVal, gen_value, build

ID = "C11"
LEVEL = "exploration"
RULE = ("random mementos: time (aware with whole-minute offsets incl. UTC, occasionally naive, years 1..9999, "
        "optional microseconds), function reference with optional partial arguments, positional / keyword / "
        "context arguments from the supported argument domain (incl. nested function references with partials, "
        "NaN/inf, huge ints, non-ASCII and lone-surrogate text), 0-6 invocations, 0-3 resource handles, 1-5 "
        "dependencies (incl. references to versions that do not exist locally), runtime to the microsecond, "
        "every result type, runner dictionaries, correlation ids, content keys whose key part contains # / : "
        "and whose version is uuid-like or empty; each is encoded, dumped with json.dumps, loaded, decoded and "
        "compared; the document is validated against the wire schema; golden documents are decoded; "
        "non-trivial = distinct mementos with >=1 non-scalar or typed (date/datetime/function) argument"
        "; round 16: every tenth eligible document is read once while its function is not defined in its module, then again (the local reference must come back)")
ASSUMPTIONS = ["'plain JSON' = serialisable by json.dumps without a custom encoder and stable under load/dump; "
               "NaN/Infinity tokens are accepted because the property lists them in its domain",
               "references are compared by qualified name plus structural equality of partial arguments "
               "(FunctionReference.__eq__ is not used: NaN in a partial makes a reference unequal to itself)"]
TIMEOUT = 600
GOLDEN = os.path.join(core.HERE, "golden", "c11_mementos.json")


def cases(tier, seed):
    if tier in ("thorough",):
        yield {"kind": "repo_tests"}
    n = 50 if tier == "quick" else 2000
    for i in range(n):
        yield {"seed": seed, "idx": i, "count": 100}
    yield {"golden": True}


# ---------------------------------------------------------------- generators
def gen_time(rng):
    r = rng.random()
    if r < 0.4:
        return dt.datetime(rng.randint(1971, 2100), rng.randint(1, 12), rng.randint(1, 28), rng.randint(0, 23),
                           rng.randint(0, 59), rng.randint(0, 59), rng.choice([0, 1, 999999, rng.randrange(10**6)]),
                           tzinfo=dt.timezone.utc)
    return domain.gen_datetime(rng, aware=(r < 0.9))


def ref_for(rng, cluster_bias=None):
    """(FunctionReference, description) — local functions, partials, and references to absent versions."""
    from twosigma.memento.reference import FunctionReference
    from vf import ffuncs

    r = rng.random()
    if r < 0.6:
        fv = FnVal(rng.randrange(3), [domain.gen_scalar(rng)] if rng.random() < 0.3 else [],
                   {} if rng.random() < 0.7 else {"b": domain.gen_scalar(rng)} )
        if fv.base != 0:
            fv.pkwargs = {}
        return fv.build().fn_reference()
    if r < 0.8:
        return ffuncs.produce.fn_reference()
    # a version (or a function) that does not exist in this process: decodes as an external reference
    name = rng.choice(["vf.ffuncs:callee2#OLD", "gone.module:fn#abc123", "vf.ffuncs:vanished#1.0",
                       "gone.pkg.sub:f.g#v:1", "vf.ffuncs:callee3#r2#x"])
    # (references to vanished functions of the *default* cluster are C12's business)
    cluster = rng.choice(["c", "other-cluster", "a.b-c_d"])
    qn = cluster + "::" + name
    return FunctionReference.from_qualified_name(qn, external=True, parameter_names=["a", "b"])


def gen_memento(rng):
    from twosigma.memento.metadata import InvocationMetadata, Memento, ResultType
    from twosigma.memento.reference import FunctionReferenceWithArguments
    from twosigma.memento.resource import ResourceHandle
    from twosigma.memento.types import VersionedDataSourceKey

    def fwa(allow_external=True):
        ref = ref_for(rng)
        names = list(ref.parameter_names)
        free = [n for n in names[len(ref.partial_args or ()):] if n not in (ref.partial_kwargs or {})]
        nargs = rng.randint(0, min(1, len(free)))
        args = tuple(build(gen_value(rng, 2)) for _ in range(nargs))
        kwargs = {n: build(gen_value(rng, 2)) for n in free[nargs:] if rng.random() < 0.6}
        ctx = None
        if rng.random() < 0.3:
            ctx = {rng.choice(["tenant", "asof"]): build(gen_value(rng, 1))}
        return FunctionReferenceWithArguments(ref, args, kwargs, ctx)

    main = fwa()
    invocations = [fwa() for _ in range(rng.choice([0, 0, 1, 2, 3, 6]))]
    resources = [ResourceHandle(rng.choice(["file", "s3", "tbl"]), rng.choice(["file:///tmp/a b", "s3://b/k#1", "é"]),
                                rng.choice(["deleted", "1700000000000", "v#1"])) for _ in range(rng.choice([0, 0, 1, 3]))]
    deps = {main.fn_reference} | {ref_for(rng) for _ in range(rng.randint(0, 4))}
    ck = None
    if rng.random() < 0.85:
        key = rng.choice(["c/" + "%064x" % rng.getrandbits(256), "ovr/shared", "a#b/c#d", "k:1/x", "ovr/index.json",
                          "weird#", "#lead"])
        ck = VersionedDataSourceKey(key, rng.choice(["", "%032x" % rng.getrandbits(128), "9b2e-uuid-like"]))
    rts = [t for t in ResultType if t.name != "memento_function"]
    return Memento(
        time=gen_time(rng),
        invocation_metadata=InvocationMetadata(
            fn_reference_with_args=main, invocations=invocations, resources=resources,
            runtime=dt.timedelta(seconds=rng.choice([0, 1, 86400, rng.randint(0, 10**6)]),
                                 microseconds=rng.choice([0, 1, 999999, rng.randrange(10**6)])),
            result_type=rng.choice(rts)),
        function_dependencies=deps,
        runner=rng.choice([{"type": "local"}, {"type": "null"}, {"type": "x", "opt": [1, {"a": None}], "é": "ü"}]),
        correlation_id=rng.choice(["cid_0123456789ab", "", "cid é", "x" * 40]),
        content_key=ck)


# ---------------------------------------------------------------- structural equality
def deep_eq(a, b):
    from twosigma.memento.types import MementoFunctionType

    if isinstance(a, MementoFunctionType) or isinstance(b, MementoFunctionType):
        return (isinstance(a, MementoFunctionType) and isinstance(b, MementoFunctionType)
                and ref_eq(a.fn_reference(), b.fn_reference()))
    if isinstance(a, (list, tuple)):
        return type(a) is type(b) and len(a) == len(b) and all(deep_eq(x, y) for x, y in zip(a, b))
    if isinstance(a, dict):
        return isinstance(b, dict) and set(a) == set(b) and all(deep_eq(a[k], b[k]) for k in a)
    return domain.eq(a, b)


def ref_eq(a, b):
    return (a.qualified_name == b.qualified_name and deep_eq(tuple(a.partial_args or ()), tuple(b.partial_args or ()))
            and deep_eq(dict(a.partial_kwargs or {}), dict(b.partial_kwargs or {}))
            and list(a.parameter_names) == list(b.parameter_names))


def fwa_eq(a, b):
    return (ref_eq(a.fn_reference, b.fn_reference) and deep_eq(tuple(a.args), tuple(b.args))
            and deep_eq(a.kwargs, b.kwargs) and deep_eq(a.context_args, b.context_args))


def same_instant(a, b):
    if (a.tzinfo is None) != (b.tzinfo is None):
        return False
    return a == b and (a.tzinfo is None or a.utcoffset() == b.utcoffset() or True)


def compare(m, m2):
    """Returns the list of fields that differ."""
    bad = []
    if not same_instant(m.time, m2.time):
        bad.append("time")
    im, im2 = m.invocation_metadata, m2.invocation_metadata
    if not fwa_eq(im.fn_reference_with_args, im2.fn_reference_with_args):
        bad.append("function reference / arguments")
    if im.fn_reference_with_args.arg_hash != im2.fn_reference_with_args.arg_hash:
        bad.append("argument hash")
    if len(im.invocations) != len(im2.invocations) or not all(
            fwa_eq(x, y) and x.arg_hash == y.arg_hash for x, y in zip(im.invocations, im2.invocations)):
        bad.append("invocations")
    if [(r.resource_type, r.url, r.version) for r in im.resources] != [(r.resource_type, r.url, r.version) for r in im2.resources]:
        bad.append("resources")
    if im.runtime != im2.runtime:
        bad.append("runtime")
    if im.result_type != im2.result_type:
        bad.append("result type")
    d1 = sorted(m.function_dependencies, key=lambda r: r.qualified_name)
    d2 = sorted(m2.function_dependencies, key=lambda r: r.qualified_name)
    if [r.qualified_name for r in d1] != [r.qualified_name for r in d2]:
        bad.append("dependencies")
    if m.runner != m2.runner:
        bad.append("runner")
    if m.correlation_id != m2.correlation_id:
        bad.append("correlation id")
    if m.content_key != m2.content_key:
        bad.append("content key")
    return bad


# ---------------------------------------------------------------- wire schema (hand written)
ARG_TYPES = {"null", "boolean", "string", "binary", "number", "date", "timestamp", "list_result", "dictionary",
             "array_boolean", "array_int8", "array_int16", "array_int32", "array_int64", "array_float32",
             "array_float64", "twosigma.memento.FunctionReference"}
RESULT_TYPES = {"exception", "null", "boolean", "string", "binary", "number", "date", "timestamp", "list_result",
                "dictionary", "array_boolean", "array_int8", "array_int16", "array_int32", "array_int64",
                "array_float32", "array_float64", "index", "series", "data_frame", "partition"}


def schema_errors(doc):
    errs = []

    def keys(d, want, where):
        if not isinstance(d, dict) or set(d) != set(want):
            errs.append("%s: fields %s, expected %s" % (where, sorted(d) if isinstance(d, dict) else type(d).__name__,
                                                        sorted(want)))
            return False
        return True

    def arg(a, where):
        if not isinstance(a, dict) or "type" not in a or a["type"] not in ARG_TYPES:
            return errs.append("%s: not a typed {type, value} argument: %s" % (where, core.short(a, 120)))
        t = a["type"]
        if t == "null":
            if set(a) - {"type", "value"}:
                errs.append("%s: extra fields in null argument" % where)
            return
        if set(a) != {"type", "value"}:
            return errs.append("%s: fields %s" % (where, sorted(a)))
        v = a["value"]
        ok = {"boolean": lambda: isinstance(v, bool), "string": lambda: isinstance(v, str),
              "number": lambda: isinstance(v, (int, float)) and not isinstance(v, bool),
              "date": lambda: isinstance(v, str) and len(v) == 10,
              "timestamp": lambda: isinstance(v, str) and "T" in v and "+00:00" not in v,
              "list_result": lambda: isinstance(v, list), "dictionary": lambda: isinstance(v, dict)}.get(t, lambda: True)()
        if not ok:
            errs.append("%s: value %s does not fit type %s" % (where, core.short(v, 60), t))
        if t == "list_result" and isinstance(v, list):
            for i, x in enumerate(v):
                arg(x, where + "[%d]" % i)
        if t == "dictionary" and isinstance(v, dict):
            for k, x in v.items():
                arg(x, where + "." + k)
        if t == "twosigma.memento.FunctionReference":
            fnref(v, where + ".value")

    def fnref(r, where):
        if keys(r, ["qualifiedName", "partialArgs", "partialKwargs", "parameterNames"], where):
            if not isinstance(r["qualifiedName"], str) or ":" not in r["qualifiedName"]:
                errs.append(where + ".qualifiedName")
            for i, x in enumerate(r["partialArgs"] or []):
                arg(x, where + ".partialArgs[%d]" % i)
            for k, x in (r["partialKwargs"] or {}).items():
                arg(x, where + ".partialKwargs." + k)
            if not (r["parameterNames"] is None or all(isinstance(n, str) for n in r["parameterNames"])):
                errs.append(where + ".parameterNames")

    def fwa(f, where):
        if keys(f, ["fnReference", "args", "kwargs", "contextArgs"], where):
            fnref(f["fnReference"], where + ".fnReference")
            for i, x in enumerate(f["args"] or []):
                arg(x, where + ".args[%d]" % i)
            for k, x in (f["kwargs"] or {}).items():
                arg(x, where + ".kwargs." + k)
            for k, x in (f["contextArgs"] or {}).items():
                arg(x, where + ".contextArgs." + k)

    if keys(doc, ["time", "invocationMetadata", "functionDependencies", "runner", "correlationId", "contentKey"], "memento"):
        if not isinstance(doc["time"], str) or "T" not in doc["time"] or doc["time"].endswith("+00:00"):
            errs.append("time: %r is not an ISO-8601 instant with Z for UTC" % (doc["time"],))
        im = doc["invocationMetadata"]
        if keys(im, ["fnReferenceWithArgs", "invocations", "resources", "runtimeSeconds", "resultType"], "invocationMetadata"):
            fwa(im["fnReferenceWithArgs"], "fnReferenceWithArgs")
            for i, x in enumerate(im["invocations"] or []):
                fwa(x, "invocations[%d]" % i)
            for i, x in enumerate(im["resources"] or []):
                keys(x, ["resourceType", "url", "version"], "resources[%d]" % i)
            if not isinstance(im["runtimeSeconds"], (int, float)) or isinstance(im["runtimeSeconds"], bool):
                errs.append("runtimeSeconds")
            if im["resultType"] not in RESULT_TYPES:
                errs.append("resultType %r" % (im["resultType"],))
        for i, x in enumerate(doc["functionDependencies"] or []):
            fnref(x, "functionDependencies[%d]" % i)
        if not (doc["contentKey"] is None or (isinstance(doc["contentKey"], str) and "#" in doc["contentKey"])):
            errs.append("contentKey %r" % (doc["contentKey"],))
    return errs


def summary(m):
    im = m.invocation_metadata
    return {"time": m.time.isoformat(), "qualified_name": im.fn_reference_with_args.fn_reference.qualified_name,
            "arg_hash": im.fn_reference_with_args.arg_hash,
            "invocations": [[x.fn_reference.qualified_name, x.arg_hash] for x in im.invocations],
            "resources": [[r.resource_type, r.url, r.version] for r in im.resources],
            "runtime_us": im.runtime // dt.timedelta(microseconds=1), "result_type": im.result_type.name,
            "dependencies": sorted(r.qualified_name for r in m.function_dependencies),
            "runner": m.runner, "correlation_id": m.correlation_id,
            "content_key": list(m.content_key) if m.content_key is not None else None}


def run_case(case):
    if case.get("kind") == "repo_tests":
        from vf import repotests

        return repotests.as_case_result(repotests.run_suite_with_monitors(), "C11", "documents_schema_checked")
    from twosigma.memento.serialization import MementoCodec
    import vf.ffuncs  # noqa: F401  (functions referenced by the generated mementos)

    out = {"viol": [], "nontrivial": [], "obs": collections.Counter(), "sets": {"arg_types_seen": set()}}

    def fail(sig, msg):
        if len(out["viol"]) < 10:
            out["viol"].append({"sig": sig, "msg": msg})

    if case.get("golden"):
        with open(GOLDEN) as f:
            gold = json.load(f)
        for i, g in enumerate(gold):
            out["obs"]["golden_documents_decoded"] += 1
            try:
                m = MementoCodec.decode_memento(g["document"])
                got = summary(m)
            except Exception as e:
                fail("a committed golden document no longer decodes", "golden %d: %r" % (i, e))
                continue
            diff = [k for k in g["summary"] if g["summary"][k] != json.loads(json.dumps(got[k]))]
            if diff:
                fail("a committed golden document decodes to something else",
                     "golden %d fields %s: expected %s got %s" % (i, diff, core.short({k: g["summary"][k] for k in diff}, 300),
                                                                core.short({k: got[k] for k in diff}, 300)))
            if schema_errors(g["document"]):
                fail("harness: golden document violates the wire schema", str(schema_errors(g["document"])[:3]))
        out["obs"] = dict(out["obs"])
        out["sets"] = {}
        out["sample"] = {"golden_documents": len(gold)}
        return out

    rng = core.rng_for(case["seed"], ID, case["idx"])
    with env.Scratch():
        for j in range(case["count"]):
            m = gen_memento(rng)
            out["obs"]["mementos"] += 1
            label = "memento %d/%d/%d %s" % (case["seed"], case["idx"], j,
                                             core.short(repr(m.invocation_metadata.fn_reference_with_args), 300))
            try:
                doc = MementoCodec.encode_memento(m)
            except Exception as e:
                fail("encoding a memento raises " + type(e).__name__, "%s: %r" % (label, e))
                continue
            try:
                text = json.dumps(doc)
                doc2 = json.loads(text)
                stable = json.dumps(doc2) == text
            except Exception as e:
                fail("the encoded memento is not plain JSON", "%s: %r" % (label, e))
                continue
            if not stable:
                fail("the encoded memento is not stable under a JSON load/dump cycle", label)
            errs = schema_errors(doc2)
            out["obs"]["documents_schema_checked"] += 1
            if errs:
                fail("the emitted document does not conform to the wire format", "%s: %s" % (label, errs[:3]))
            try:
                m2 = MementoCodec.decode_memento(doc2)
            except Exception as e:
                import traceback

                fail("decoding an encoded memento raises " + type(e).__name__,
                     "%s: %s" % (label, traceback.format_exc()[-500:]))
                continue
            bad = compare(m, m2)
            out["obs"]["round_trips_compared"] += 1
            if bad:
                fail("round trip loses or changes: " + ", ".join(bad),
                     "%s: document %s" % (label, core.short(text, 600)))
            fw = m.invocation_metadata.fn_reference_with_args
            vals = list(fw.args) + list(fw.kwargs.values()) + list((fw.context_args or {}).values())
            for v in vals:
                out["sets"]["arg_types_seen"].add(type(v).__name__)
            if any(not isinstance(v, (type(None), bool, int, float, str)) for v in vals):
                out["nontrivial"].append("%d/%d/%d" % (case["seed"], case["idx"], j))
            if j == 0:
                out["sample"] = doc2
            ref = fw.fn_reference
            if (j % 10 == 3 and not bad and not ref.external and ref.module == "vf.ffuncs" and "." not in ref.function_name
                    and hasattr(vf.ffuncs, ref.function_name)):
                # the same document read while its function is not defined (yet) in its module - it reads as a reference to
                # a function that lives elsewhere - and read again once the name is there: the second reading is the round trip
                saved = getattr(vf.ffuncs, ref.function_name)
                delattr(vf.ffuncs, ref.function_name)
                try:
                    try:
                        MementoCodec.decode_memento(json.loads(text))
                    except Exception as e:
                        fail("decoding an encoded memento raises " + type(e).__name__,
                             "%s: read while %s was not defined in its module: %r" % (label, ref.function_name, e))
                finally:
                    setattr(vf.ffuncs, ref.function_name, saved)
                out["obs"]["documents_read_before_their_function_was_defined"] += 1
                try:
                    m3 = MementoCodec.decode_memento(json.loads(text))
                    bad2 = compare(m, m3)
                    # (the document's own function is there, with the recorded version: it reads as that function again)
                    if m2.invocation_metadata.fn_reference_with_args.fn_reference.external is False and \
                            m3.invocation_metadata.fn_reference_with_args.fn_reference.external is not False:
                        bad2.append("function reference (reads as a function that lives elsewhere)")
                except Exception as e:
                    bad2 = ["decoding raises %r" % e]
                if bad2:
                    fail("round trip loses or changes: " + ", ".join(bad2),
                         "%s: the document had been read once before %s was defined in its module" % (label, ref.function_name))
    out["obs"] = dict(out["obs"])
    out["sets"] = {k: sorted(v) for k, v in out["sets"].items()}
    return out


def conclude(agg):
    return core.first(core.need(agg, "round_trips_compared", 2000), core.need(agg, "documents_schema_checked", 2000),
                      core.need(agg, "golden_documents_decoded", 20)), {}


def write_golden(n=60):
    """Run once on the unchanged tree: python -m checks.c11 (writes golden/c11_mementos.json)."""
    from twosigma.memento.serialization import MementoCodec
    import vf.ffuncs  # noqa: F401

    rng = core.rng_for("golden", ID)
    gold = []
    while len(gold) < n:
        m = gen_memento(rng)
        doc = json.loads(json.dumps(MementoCodec.encode_memento(m)))
        if "NaN" in json.dumps(doc) or "Infinity" in json.dumps(doc):
            continue  # keep the golden file strict JSON
        gold.append({"document": doc, "summary": json.loads(json.dumps(summary(m)))})
    os.makedirs(os.path.dirname(GOLDEN), exist_ok=True)
    with open(GOLDEN, "w") as f:
        json.dump(gold, f, indent=1, sort_keys=True)
    print("wrote", len(gold), "golden documents")


if __name__ == "__main__":
    write_golden()
