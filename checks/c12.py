"""C12 — whatever was stored stays listable and readable as names and code evolve.

Monitors: result of parse_qualified_name, finding stored entries again (second call, memento query,
listings), outcome of every read of stored metadata after the code base evolved.
Oracle: the parts a name was built from (with an all-decompositions enumerator that classifies
inherently ambiguous strings), the recorder, the evolution script's knowledge of which versions exist."""
import collections
import importlib
import json
import os
import re
import sys

from vf import core, domain, env, procs

ID = "C12"
LEVEL = "exploration"
RULE = ("(a) qualified names built from cluster (absent, or a string over letters, digits and . _ - + = : # @ "
        "without '::'), dotted module, function name (possibly dotted) and version (absent or a string over the "
        "same alphabet, deliberately including ':' '#' and '::'-lookalikes) are parsed and compared with their "
        "parts; (b) a sample is used for a real function in a real cluster on a filesystem store and found again "
        "by a second call, memento(), list_mementos() and list_memoized_functions(); (c) caller/callee programs "
        "whose caller is pinned by an explicit version are run, then the callee is edited / removed / turned into "
        "a plain function / moved to another cluster / version-bumped (default and named cluster, filesystem with "
        "and without cache) and a fresh process calls, queries, lists and traces; non-trivial = distinct name "
        "strings containing at least one of ':' '#' '@' in cluster or version, plus every evolution kind x cluster"
        '; evolutions include re-clustering with the explicit version kept'
        "; rounds 7-9: signature changes with the explicit version kept (dropped / swapped / prepended parameters), the callee nested in a class, the removed callee's name left bound to another function of the same explicit version"
        "; rounds 10-11: the callee's module moved into a package with the old module kept as a re-export"
        "; round 12: the store part asks whether the entry's own function reads back as external, every third function is nested in a class"
        "; round 15: the empty string as explicit version")
ASSUMPTIONS = ["a qualified name that has more than one valid decomposition under the documented grammar "
               "[cluster::]module:function[#version] cannot be split back by any parser; such strings are "
               "classified by an independent enumerator and reported as the one known finding",
               "module and function names are (dotted) Python identifiers"]
TIMEOUT = 600
ALPHA = "abcXY019._-+=:#@"
IDENT = re.compile(r"^[A-Za-z_][A-Za-z0-9_]*(\.[A-Za-z_][A-Za-z0-9_]*)*$")
# how the pinned caller reaches the callee: by name; as a function-valued argument of another pinned function
# (bare, or nested in a list / dictionary argument); through a partial application; through a batch
SHAPES = ["direct", "fnarg", "fnarg_nested", "partial", "batch"]
EVOLUTIONS = ["unchanged", "edited", "removed", "renamed", "plain", "reclustered", "bumped", "edited_twice", "bumped_odd",
              "reclustered_same_version", "signature_same_version", "signature_swapped", "signature_prepended", "aliased_same_version", "moved_into_package_shim"]
ODD_VERSIONS = ["a::b", "1:2#3", "1.link", "x#y", "v=1+2", "@", ":", "1.0-rc.1", ""]  # (the empty string is a version like any other)


def cases(tier, seed):
    n_parse, n_store, n_evo = (40, 150, 3) if tier == "quick" else (2000, 3000, 30)
    for i in range(n_parse):
        yield {"kind": "parse", "seed": seed, "idx": i, "count": 50}
    for i in range(0, n_store, 10):
        yield {"kind": "store", "seed": seed, "idx": i, "count": 10}
    k = 0
    for rep in range(1 if tier == "quick" else 4):
        for how in INPROC:  # the code base evolves inside the running process, after the metadata was read once
            for cluster in (None, "named.cl-1"):
                # (without a memory cache: a cache hands back the memento object it decoded before the change, with
                # the references as resolved then - that is not a read of stored metadata and is not judged)
                for r2 in range(2):
                    yield {"kind": "evolve_inproc", "seed": seed, "idx": k, "how": how, "cluster": cluster, "cache": False}
                    k += 1
        for shape in SHAPES:
            for evo in EVOLUTIONS:
                if evo == "bumped_odd":
                    continue
                for cluster in (None, "named.cl-1"):
                    for cache in (False, True):
                        yield {"kind": "evolve", "seed": seed, "idx": k, "evolution": evo, "cluster": cluster, "cache": cache,
                               "shape": shape}
                        k += 1
        for shape in ("direct", "fnarg"):  # the callee is a function nested in a class (module:Class.function)
            for evo in EVOLUTIONS:
                if evo == "bumped_odd":
                    continue
                for cluster in (None, "named.cl-1"):
                    yield {"kind": "evolve", "seed": seed, "idx": k, "evolution": evo, "cluster": cluster, "cache": False,
                           "shape": shape, "nested": True}
                    k += 1
        for j in range(len(ODD_VERSIONS)):  # every odd explicit version, bumped, in both clusters
            for cluster in (None, "named.cl-1"):
                yield {"kind": "evolve", "seed": seed, "idx": k, "evolution": "bumped_odd", "cluster": cluster, "cache": bool(j % 2),
                       "shape": SHAPES[j % len(SHAPES)], "odd": j}
                k += 1


INPROC = ["control", "removed", "variable_rebound", "helper_redefined", "replaced_by_plain"]


# ---------------------------------------------------------------- names
def gen_string(rng, allow_empty=False):
    n = rng.randint(0 if allow_empty else 1, 8)
    s = "".join(rng.choice(ALPHA) for _ in range(n))
    r = rng.random()
    if r < 0.15:
        s = rng.choice(["1.0", "2", "v1", "a:b", "a#b", "x::y", "1:2#3", "m:f", "m:f#1", "::", "#", ":", "a::m:f", "@x"])
    elif r < 0.25:
        # strings that look like names the store uses for its own files and directories
        s = rng.choice(["1.link", "rel.link", ".link", "a.tmp", ".tmp", ".versions", "x.memento.json", "1.metadata.log", "c", "m",
                        "v.link.tmp", "link", "1.json"])
    return s


def gen_parts(rng):
    cluster = None
    if rng.random() < 0.6:
        while True:
            cluster = gen_string(rng)
            if "::" not in cluster and cluster:
                break
    module = ".".join(rng.choice(["pkg", "mod_1", "a", "B2", "_x"]) for _ in range(rng.randint(1, 3)))
    function = rng.choice(["fn", "f_2", "Cls.method", "_g", "a.b.c"])
    version = gen_string(rng) if rng.random() < 0.8 else None
    return cluster, module, function, version


def build_qn(cluster, module, function, version):
    qn = module + ":" + function
    if version is not None:
        qn += "#" + version
    if cluster is not None:
        qn = cluster + "::" + qn
    return qn


def decompositions(qn):
    """All (cluster, module, function, version) readings of qn under the documented grammar."""
    out = set()
    starts = [(None, qn)]
    i = qn.find("::")
    while i != -1:
        if i > 0:
            out_c = qn[:i]
            if "::" not in out_c:
                starts.append((out_c, qn[i + 2:]))
        i = qn.find("::", i + 1)
    for cluster, rest in starts:
        for j, ch in enumerate(rest):
            if ch != ":":
                continue
            module, tail = rest[:j], rest[j + 1:]
            if not IDENT.match(module):
                continue
            cuts = [None] + [k for k, c in enumerate(tail) if c == "#"]
            for k in cuts:
                function = tail if k is None else tail[:k]
                version = None if k is None else tail[k + 1:]
                if IDENT.match(function):
                    out.add((cluster, module, function, version))
    return out


def run_parse(case, out, fail):
    from twosigma.memento.reference import FunctionReference

    rng = core.rng_for(case["seed"], ID, "parse", case["idx"])
    for _ in range(case["count"]):
        parts = gen_parts(rng)
        qn = build_qn(*parts)
        decs = decompositions(qn)
        out["obs"]["names_parsed"] += 1
        if parts not in decs:
            raise AssertionError("harness: enumerator misses the construction %r of %r" % (parts, qn))
        try:
            got = FunctionReference.parse_qualified_name(qn)
            got = (got["cluster"], got["module"], got["function"], got["version"])
        except Exception as e:
            got = ("raise", repr(e))
        if any(ch in (parts[0] or "") + (parts[3] or "") for ch in ":#@"):
            out["nontrivial"].append(qn)
        if got != parts:
            if len(decs) > 1:
                out["obs"]["ambiguous_names_seen"] += 1
                fail("qualified name with more than one valid decomposition",
                     "%r built from %r parses as %r; all readings: %s" % (qn, parts, got, sorted(map(str, decs))))
            else:
                fail("a qualified name with a unique decomposition is not split back into its parts",
                     "%r built from %r parses as %r" % (qn, parts, got))
        elif len(decs) > 1:
            out["obs"]["ambiguous_names_seen"] += 1
    out["sample"] = {"qualified_name": qn, "parts": parts}


# ---------------------------------------------------------------- stored and found again
STORE_MOD = '''import twosigma.memento as m
from vf.recorder import REC

@m.memento_function(cluster=%(cluster)r, version=%(version)r)
def fn(x):
    REC.hit("fn", x)
    return x * 2
'''


STORE_MOD_NESTED = '''import twosigma.memento as m
from vf.recorder import REC

class K:
    @staticmethod
    @m.memento_function(cluster=%(cluster)r, version=%(version)r)
    def fn(x):
        REC.hit("fn", x)
        return x * 2

fn = K.fn
'''


def store_child(arg):
    """Fresh process: define fn under (cluster, version), call twice, query and list."""
    import twosigma.memento as m
    from vf.recorder import REC

    root, modname, cluster, version = arg["root"], arg["mod"], arg["cluster"], arg["version"]
    clusters = {cluster: env.fs_backend(os.path.join(root, "named"))} if cluster is not None else {}
    env.set_env(os.path.join(root, "env"), default_storage=env.fs_backend(os.path.join(root, "default")), clusters=clusters)
    sys.path.insert(0, root)
    res = {"steps": []}

    def step(name, f):
        try:
            res["steps"].append([name, "ok", f()])
        except Exception as e:
            import traceback

            res["steps"].append([name, "raise", "%s: %s" % (type(e).__name__, str(e)[:300]), traceback.format_exc()[-400:]])

    mod = None

    def imp():
        nonlocal mod
        mod = importlib.import_module(modname)
        return mod.fn.fn_reference().qualified_name

    step("define", imp)
    if mod is None:
        return res
    step("call1", lambda: [mod.fn(3), REC.count("fn")])
    step("call2", lambda: [mod.fn(3), REC.count("fn")])
    step("memento", lambda: mod.fn.memento(3) is not None)
    step("own_reference_external", lambda: bool(mod.fn.memento(3).invocation_metadata.fn_reference_with_args.fn_reference.external))
    step("listed_external", lambda: [bool(r.external) for r in m.list_memoized_functions(cluster)])
    step("list_mementos", lambda: len(mod.fn.list_mementos()))
    step("list_functions", lambda: [[r.cluster_name, r.module, r.function_name,
                                     m.FunctionReference.parse_qualified_name(r.qualified_name)["version"], r.qualified_name]
                                    for r in m.list_memoized_functions(cluster)])
    return res


def run_store(case, out, fail):
    rng = core.rng_for(case["seed"], ID, "store", case["idx"])
    with env.Scratch() as sc:
        for j in range(case["count"]):
            cluster = None
            if rng.random() < 0.6:
                while True:
                    cluster = gen_string(rng)
                    if "::" not in cluster:
                        break
            version = gen_string(rng)
            modname = "vpname_%d_%d_%d" % (case["seed"], case["idx"], j)
            root = sc.path("s%d" % j)
            os.makedirs(root)
            with open(os.path.join(root, modname + ".py"), "w") as f:
                # (every third function is nested in a class: its name in the qualified name is Class.function)
                nested = j % 3 == 2
                f.write((STORE_MOD_NESTED if nested else STORE_MOD) % {"cluster": cluster, "version": version})
            fname = "K.fn" if nested else "fn"
            qn = build_qn(cluster, modname, fname, version)
            ambiguous = len(decompositions(qn)) > 1
            label = "cluster %r version %r (qualified name %r)" % (cluster, version, qn)
            try:
                res = procs.in_child(store_child, {"root": root, "mod": modname, "cluster": cluster, "version": version})
            except procs.ChildFailed as e:
                fail("harness: store child failed", "%s: %s" % (label, e))
                continue
            out["obs"]["names_stored_and_looked_up"] += 1
            if any(ch in (cluster or "") + version for ch in ":#@"):
                out["nontrivial"].append(qn)
            steps = {s[0]: s for s in res["steps"]}
            problems = []
            for name, s in steps.items():
                if s[1] == "raise":
                    problems.append("%s raises %s" % (name, s[2]))
            if not problems:
                if steps["define"][2] != qn:
                    problems.append("qualified name is %r" % steps["define"][2])
                if steps["call1"][2] != [6, 1] or steps["call2"][2] != [6, 1]:
                    problems.append("second call not served: (value, body count) %s then %s" % (steps["call1"][2], steps["call2"][2]))
                if steps["memento"][2] is not True:
                    problems.append("memento() does not find the entry")
                if steps["list_mementos"][2] != 1:
                    problems.append("list_mementos() returns %s entries" % steps["list_mementos"][2])
                if steps["own_reference_external"][2] is not False or any(steps["listed_external"][2]):
                    # (the function exists, in exactly this version: it is not a reference to something that is gone)
                    problems.append("the entry's own function is reported as an external reference (memento: %s, listing: %s)"
                                    % (steps["own_reference_external"][2], steps["listed_external"][2]))
                want = [cluster, modname, fname, version, qn]
                if want not in steps["list_functions"][2]:
                    problems.append("list_memoized_functions() gives %s, expected an entry %s" % (steps["list_functions"][2], want))
            if problems:
                if ambiguous:
                    out["obs"]["ambiguous_names_seen"] += 1
                    fail("qualified name with more than one valid decomposition", "%s: %s" % (label, problems))
                else:
                    fail("an entry stored under an admissible name cannot be found again", "%s: %s" % (label, problems))
        out["sample"] = {"stored_under": qn}


# ---------------------------------------------------------------- evolutions
def evo_module(cluster, stage, evolution, shape="direct", oddi=0, nested=False):
    src = _evo_module(cluster, stage, evolution, shape, oddi)
    if not nested:
        return src
    # the callee becomes a static method of a class: its qualified name is module:Box.callee
    out, lines, i = [], src.split("\n"), 0
    while i < len(lines):
        ln = lines[i]
        is_deco = ln.startswith("@m.memento_function") and i + 1 < len(lines) and lines[i + 1].startswith("def callee")
        if is_deco or ln.startswith("def callee"):
            out += ["class Box:", "    @staticmethod"]
            while i < len(lines) and lines[i].strip():
                out.append("    " + lines[i])
                i += 1
            continue
        out.append(re.sub(r"\bcallee(_v2)?(?=[(.,\]])", lambda mo: "Box." + mo.group(0), ln) if not ln.startswith("    REC.hit") else ln)
        i += 1
    return "\n".join(out)


def _evo_module(cluster, stage, evolution, shape="direct", oddi=0):
    callee_v1 = '@m.memento_function(cluster=CL%s)\ndef callee(x):\n    REC.hit("callee", x)\n    return x + 1\n'
    ver1 = ', version="1"' if evolution in ("bumped", "reclustered_same_version", "signature_same_version", "signature_swapped",
                                            "signature_prepended", "aliased_same_version", "moved_into_package_shim") else ""
    if evolution == "bumped_odd":  # an explicit version with characters that mean something in qualified names / file names
        odd = ODD_VERSIONS[oddi % len(ODD_VERSIONS)]
        ver1 = ', version=%r' % odd
    if stage == 0 or evolution == "unchanged":
        callee = callee_v1 % ver1
    elif evolution == "edited":
        callee = (callee_v1 % "").replace("x + 1", "x + 2")
    elif evolution == "edited_twice":
        callee = (callee_v1 % "").replace("x + 1", "x + %d" % (stage + 1))
    elif evolution == "removed":
        callee = ""
    elif evolution == "renamed":
        callee = (callee_v1 % "").replace("def callee(", "def callee_v2(").replace('"callee"', '"callee_v2"')
    elif evolution == "plain":
        callee = 'def callee(x):\n    return x + 1\n'
    elif evolution == "reclustered":
        callee = callee_v1.replace("cluster=CL%s", 'cluster="elsewhere"%s') % ""
    elif evolution == "signature_same_version":  # a parameter is dropped, the explicit version stays
        callee = (callee_v1 % ', version="1"').replace("def callee(x, extra=0):", "def callee(x):")
    elif evolution == "signature_swapped":  # the two parameters change places, the explicit version stays
        callee = (callee_v1 % ', version="1"').replace("def callee(x):", "def callee(extra=0, x=0):")
    elif evolution == "signature_prepended":  # a new parameter in front of the others, the explicit version stays
        callee = (callee_v1 % ', version="1"').replace("def callee(x):", "def callee(scale=1, x=0, extra=0):")
    elif evolution == "reclustered_same_version":  # moved to another cluster, its explicit version kept
        callee = callee_v1.replace("cluster=CL%s", 'cluster="elsewhere"%s') % ', version="1"'
    elif evolution == "moved_into_package_shim":
        # the function moves into a package whose module name ends with the old module's name; the old module keeps the
        # name as a re-export (run_evolve writes the package, see PACKAGED)
        callee = "from pk.%s import callee\n" % "@@MOD@@"
    elif evolution == "aliased_same_version":
        # the function is gone; its name stays as another name for a different function that carries the same explicit version
        callee = (callee_v1 % ', version="1"').replace("def callee(", "def other(").replace('"callee"', '"other"').replace(
            "x + 1", "x + 100") + "\ncallee = other\n"
    elif evolution == "bumped":
        callee = callee_v1 % ', version="2"'
    elif evolution == "bumped_odd":
        callee = callee_v1 % (', version=%r' % (ODD_VERSIONS[oddi % len(ODD_VERSIONS)] + "2"))
    if evolution in ("signature_same_version", "signature_swapped", "signature_prepended"):
        if stage == 0:
            callee = callee.replace("def callee(x):", "def callee(x, extra=0):")
    cname = "callee_v2" if (evolution == "renamed" and stage > 0) else "callee"
    if evolution in ("signature_same_version", "signature_swapped", "signature_prepended") and shape == "direct" and stage == 0:
        cname = "callee"
        return ("import twosigma.memento as m\nfrom vf.recorder import REC\nCL = %r\n\n%s\n"
                "@m.memento_function(cluster=CL, version=\"pinned\")\ndef caller(x):\n    REC.hit(\"caller\", x)\n"
                "    return [x, callee(x, 7)]\n" % (cluster, callee))
    use = {"direct": "%s(x)", "fnarg": "apply(%s, x)", "fnarg_nested": "apply({\"fns\": [%s], \"n\": 1}, x)",
           "partial": "%s.partial(x)()", "batch": "%s.call_batch([{\"x\": x}])[0]"}[shape] % cname
    apply_src = ""
    if shape in ("fnarg", "fnarg_nested"):
        apply_src = ("@m.memento_function(cluster=CL, version=\"pinned\")\ndef apply(f, x):\n    REC.hit(\"apply\", x)\n"
                     "    return %s(x)\n\n" % ("f" if shape == "fnarg" else "f[\"fns\"][0]"))
    return ("import twosigma.memento as m\nfrom vf.recorder import REC\nCL = %r\n\n%s\n%s"
            "@m.memento_function(cluster=CL, version=\"pinned\")\ndef caller(x):\n    REC.hit(\"caller\", x)\n"
            "    return [x, %s]\n" % (cluster, callee, apply_src, use))


def evo_child(arg):
    import twosigma.memento as m
    from vf.recorder import REC

    root, modname, cluster, cache = arg["root"], arg["mod"], arg["cluster"], arg["cache"]
    mb = 16 if cache else None
    clusters = {"elsewhere": env.fs_backend(os.path.join(root, "elsewhere"), cache_mb=mb)}
    if cluster is not None:
        clusters[cluster] = env.fs_backend(os.path.join(root, "named"), cache_mb=mb)
    env.set_env(os.path.join(root, "env"), default_storage=env.fs_backend(os.path.join(root, "default"), cache_mb=mb),
                clusters=clusters)
    sys.path.insert(0, arg["src"])
    mod = importlib.import_module(modname)
    res = {"steps": []}

    def step(name, f):
        try:
            res["steps"].append([name, "ok", f()])
        except Exception as e:
            import traceback

            res["steps"].append([name, "raise", "%s: %s" % (type(e).__name__, str(e)[:200]), traceback.format_exc()[-600:]])

    mem = None

    def get_mem():
        nonlocal mem
        mem = mod.caller.memento(1)
        if mem is None:
            return None
        return {"invocations": [[x.fn_reference.qualified_name, bool(x.fn_reference.external)]
                                for x in mem.invocation_metadata.invocations],
                "dependencies": sorted([r.qualified_name, bool(r.external)] for r in mem.function_dependencies)}

    first_four = {"call": lambda: [mod.caller(1), REC.names()], "memento": get_mem,
                  "list_mementos": lambda: len(mod.caller.list_mementos()),
                  "list_functions": lambda: sorted(r.qualified_name for r in m.list_memoized_functions(cluster))}
    # (the order in which a fresh process asks - listing the store first, reading the caller's entry first, ... - varies)
    for name in arg.get("order") or list(first_four):
        step(name, first_four[name])
    step("trace", lambda: (mem.trace() if mem is not None else None))
    if hasattr(mod, "apply"):
        def listed_apply():
            from twosigma.memento.reference import FunctionReference

            found = []

            def walk(v):
                if callable(getattr(v, "fn_reference", None)):
                    v = v.fn_reference()  # arguments come back as (external) memento functions
                if isinstance(v, FunctionReference):
                    found.append([v.qualified_name, bool(v.external)])
                elif isinstance(v, (list, tuple)):
                    [walk(x) for x in v]
                elif isinstance(v, dict):
                    [walk(x) for x in v.values()]

            ms = mod.apply.list_mementos()
            for mm_ in ms:
                fa = mm_.invocation_metadata.fn_reference_with_args
                walk(list(fa.args))
                walk(dict(fa.kwargs))
            return {"n": len(ms), "fn_args": found}

        step("apply_list_mementos", listed_apply)
    step("second_call", lambda: [mod.caller(1), REC.names()])
    if hasattr(mod, "callee") and hasattr(mod.callee, "fn_reference"):
        step("callee_version", lambda: mod.callee.fn_reference().qualified_name)
    return res


def run_evolve(case, out, fail):
    evolution, cluster = case["evolution"], case["cluster"]
    label = "evolution %s%s, callee reached %s, %s cluster, cache=%s" % (
        evolution, " (version %r)" % ODD_VERSIONS[case["odd"]] if "odd" in case else "", case.get("shape", "direct"),
        "default" if cluster is None else "named", case["cache"]) + (", callee nested in a class" if case.get("nested") else "")
    with env.Scratch() as sc:
        modname = "vpevo_%d_%d" % (case["seed"], case["idx"])
        stages = 3 if evolution == "edited_twice" else 2
        results = []
        for stage in range(stages):
            src = sc.path("src%d" % stage)
            os.makedirs(src)
            with open(os.path.join(src, modname + ".py"), "w") as f:
                f.write(evo_module(cluster, stage, evolution, case.get("shape", "direct"), case.get("odd", 0),
                                   case.get("nested", False)).replace("@@MOD@@", modname))
            if evolution == "moved_into_package_shim" and stage > 0:
                os.makedirs(os.path.join(src, "pk"))
                open(os.path.join(src, "pk", "__init__.py"), "w").close()
                with open(os.path.join(src, "pk", modname + ".py"), "w") as f:
                    f.write("import twosigma.memento as m\nfrom vf.recorder import REC\nCL = %r\n\n"
                            "@m.memento_function(cluster=CL, version=\"1\")\ndef callee(x):\n    REC.hit(\"callee\", x)\n    return x + 1\n"
                            % (cluster,))
            try:
                order = ["call", "memento", "list_mementos", "list_functions"]
                if stage > 0:
                    core.rng_for(case["seed"], ID, "order", case["idx"], stage).shuffle(order)
                results.append(procs.in_child(evo_child, {"root": sc.root, "src": src, "mod": modname, "cluster": cluster,
                                                         "cache": case["cache"], "order": order}))
            except procs.ChildFailed as e:
                return fail("harness: evolution child failed", "%s stage %d: %s" % (label, stage, e))
        first = {s[0]: s for s in results[0]["steps"]}
        if first["call"][1] != "ok" or first["call"][2][0] != [1, 2] or first["call"][2][1] not in (["caller", "callee"], ["caller", "apply", "callee"]):
            return fail("harness: first process did not compute the pair", "%s: %s" % (label, first["call"]))
        old_callee = first.get("callee_version", [None, None, None])[2]
        for stage, res in enumerate(results[1:], 1):
            steps = {s[0]: s for s in res["steps"]}
            out["obs"]["evolved_processes_observed"] += 1
            for name, s in steps.items():
                out["obs"]["reads_after_evolution"] += 1
                if s[1] == "raise":
                    fail("reading stored metadata raises after the code base evolved (%s)" % s[2].split(":")[0],
                         "%s stage %d: %s raises %s ... %s" % (label, stage, name, s[2], s[3][-300:]))
            if steps["call"][1] == "ok":
                if steps["call"][2][0] != [1, 2] or steps["call"][2][1]:
                    fail("an entry whose own version is current is not served",
                         "%s stage %d: pinned caller returned %s and ran bodies %s" % (label, stage, steps["call"][2][0], steps["call"][2][1]))
            if steps["memento"][1] == "ok":
                mm = steps["memento"][2]
                if mm is None:
                    fail("an entry whose own version is current is not found by memento()", "%s stage %d" % (label, stage))
                else:
                    # (a function found again under its module, name and version counts as existing wherever it lives
                    # now - the repository's own tests say so: moved to another cluster with its explicit version kept,
                    # it is not "gone")
                    gone = evolution not in ("unchanged", "reclustered_same_version")
                    first_mem = first.get("memento", [None, None, None])[2] or {}
                    was = sorted(q for q, _ in (first_mem.get("invocations", []) + first_mem.get("dependencies", [])) if "callee" in q)
                    now = sorted(q for q, _ in (mm["invocations"] + mm["dependencies"]) if "callee" in q)
                    if evolution == "reclustered_same_version" and cluster is None:
                        # (not judged: a name recorded without cluster reads back with the cluster the function has now)
                        now = sorted(q.replace("elsewhere::", "") for q in now)
                    if was and now != was:
                        fail("a reference inside stored metadata names another function after the code base evolved",
                             "%s stage %d: references %s, the entry was recorded with %s" % (label, stage, now, was))
                    for qn, external in mm["invocations"] + mm["dependencies"]:
                        if "callee" in qn:
                            out["obs"]["references_to_old_versions_checked"] += 1
                            if external != gone:
                                fail("a reference to a version that no longer exists is not reported as external"
                                     if gone else "a reference to an existing version is reported as external",
                                     "%s stage %d: %s external=%s" % (label, stage, qn, external))
            al = steps.get("apply_list_mementos")
            if al is not None and al[1] == "ok":
                if al[2]["n"] != 1:
                    fail("stored entry is not listed after the code base evolved",
                         "%s stage %d: entry of the function that received the callee as an argument: %s" % (label, stage, al[2]))
                for qn, external in al[2]["fn_args"]:
                    if evolution in ("signature_same_version", "signature_swapped", "signature_prepended"):
                        # (not judged: a function handed over as an argument is looked up again by name and version when
                        # the arguments are normalised; its recorded parameter names play no part there)
                        continue
                    out["obs"]["references_to_old_versions_checked"] += 1
                    out["obs"]["function_valued_arguments_read_back"] += 1
                    if external != (evolution not in ("unchanged", "reclustered_same_version")):
                        fail("a reference to a version that no longer exists is not reported as external"
                             if evolution != "unchanged" else "a reference to an existing version is reported as external",
                             "%s stage %d: function-valued argument %s external=%s" % (label, stage, qn, external))
            if steps["list_mementos"][1] == "ok" and steps["list_mementos"][2] != 1:
                fail("stored entry is not listed after the code base evolved", "%s stage %d: %s" % (label, stage, steps["list_mementos"][2]))
            if steps["list_functions"][1] == "ok" and not any("caller#pinned" in q for q in steps["list_functions"][2]):
                fail("stored function is not listed after the code base evolved", "%s stage %d: %s" % (label, stage, steps["list_functions"][2]))
        out["nontrivial"].append("%s|%s|%s" % (evolution, case.get("shape", "direct"), "default" if cluster is None else "named"))
        out["sample"] = {"evolution": evolution, "cluster": cluster, "second_process": results[1]["steps"][:2]}


INPROC_MODULE = (
    "import twosigma.memento as m\nfrom vf.recorder import REC\nCL = %r\nK = 1\n\n"
    "def helper(x):\n    return x + K\n\n"
    "@m.memento_function(cluster=CL)\ndef callee(x):\n    REC.hit(\"callee\", x)\n    return helper(x)\n\n"
    "@m.memento_function(cluster=CL, version=\"pinned\")\ndef caller(x):\n    REC.hit(\"caller\", x)\n    return [x, callee(x)]\n")


def inproc_child(arg):
    import linecache

    import twosigma.memento as m
    from vf.recorder import REC

    root, modname, cluster, cache, how = arg["root"], arg["mod"], arg["cluster"], arg["cache"], arg["how"]
    mb = 16 if cache else None
    clusters = {}
    if cluster is not None:
        clusters[cluster] = env.fs_backend(os.path.join(root, "named"), cache_mb=mb)
    env.set_env(os.path.join(root, "env"), default_storage=env.fs_backend(os.path.join(root, "default"), cache_mb=mb),
                clusters=clusters)
    sys.path.insert(0, arg["src"])
    mod = importlib.import_module(modname)

    def observe():
        res = {}

        def step(name, f):
            try:
                res[name] = ["ok", f()]
            except Exception as e:
                import traceback

                res[name] = ["raise", "%s: %s" % (type(e).__name__, str(e)[:200]), traceback.format_exc()[-500:]]

        def refs_of(mem):
            return {"invocations": [[x.fn_reference.qualified_name, bool(x.fn_reference.external)]
                                    for x in mem.invocation_metadata.invocations],
                    "dependencies": sorted([r.qualified_name, bool(r.external)] for r in mem.function_dependencies)}

        mark = REC.mark()
        step("call", lambda: [mod.caller(1), [e[0] for e in REC.since(mark)]])
        step("memento", lambda: refs_of(mod.caller.memento(1)))
        step("list_mementos", lambda: [refs_of(x) for x in mod.caller.list_mementos()])
        step("list_functions", lambda: sorted([r.qualified_name, bool(r.external)] for r in m.list_memoized_functions(cluster)))
        return res

    before = observe()
    if how == "removed":
        del mod.callee
    elif how == "variable_rebound":
        mod.K = 2  # callee's version depends on it; nothing is registered, nobody asks for a version
    elif how in ("helper_redefined", "replaced_by_plain"):
        src = "def helper(x):\n    return x + K + 10\n" if how == "helper_redefined" else "def callee(x):\n    return x + 100\n"
        name = "<vf12-cell>"
        linecache.cache[name] = (len(src), None, src.splitlines(True), name)
        exec(compile(src, name, "exec"), mod.__dict__)
    REC.mark()
    return {"before": before, "after": observe()}


def run_evolve_inproc(case, out, fail):
    how, cluster = case["how"], case["cluster"]
    label = "in-process evolution '%s', %s cluster, cache=%s" % (how, "default" if cluster is None else "named", case["cache"])
    with env.Scratch() as sc:
        modname = "vpinp_%d_%d" % (case["seed"], case["idx"])
        src = sc.path("src")
        os.makedirs(src)
        with open(os.path.join(src, modname + ".py"), "w") as f:
            f.write(INPROC_MODULE % (cluster,))
        try:
            res = procs.in_child(inproc_child, {"root": sc.root, "src": src, "mod": modname, "cluster": cluster,
                                                "cache": case["cache"], "how": how})
        except procs.ChildFailed as e:
            return fail("harness: evolution child failed", "%s: %s" % (label, e))
        b, a = res["before"], res["after"]
        if b["call"][0] != "ok" or b["call"][1][0] != [1, 2] or b["memento"][0] != "ok":
            return fail("harness: first observation did not compute the pair", "%s: %s" % (label, b))
        out["obs"]["evolved_processes_observed"] += 1
        gone = how != "control"
        for name, s in a.items():
            out["obs"]["reads_after_evolution"] += 1
            if s[0] == "raise":
                fail("reading stored metadata raises after the code base evolved (%s)" % s[1].split(":")[0],
                     "%s: %s raises %s ... %s" % (label, name, s[1], s[2][-300:]))
        if a["call"][0] == "ok" and (a["call"][1][0] != [1, 2] or a["call"][1][1]):
            fail("an entry whose own version is current is not served",
                 "%s: pinned caller returned %s and ran bodies %s" % (label, a["call"][1][0], a["call"][1][1]))
        seen = []
        if a["memento"][0] == "ok":
            seen += a["memento"][1]["invocations"] + a["memento"][1]["dependencies"]
        if a["list_mementos"][0] == "ok":
            if len(a["list_mementos"][1]) != 1:
                fail("stored entry is not listed after the code base evolved", "%s: %s" % (label, a["list_mementos"][1]))
            for r in a["list_mementos"][1]:
                seen += r["invocations"] + r["dependencies"]
        if a["list_functions"][0] == "ok":
            seen += a["list_functions"][1]
        for qn, external in seen:
            if ":callee#" in qn:
                out["obs"]["references_to_old_versions_checked"] += 1
                out["obs"]["references_checked_after_in_process_evolution"] += 1
                if external != gone:
                    fail("a reference to a version that no longer exists is not reported as external"
                         if gone else "a reference to an existing version is reported as external",
                         "%s: %s external=%s (the same process had read this metadata before the change)" % (label, qn, external))
        out["nontrivial"].append("inproc|%s|%s" % (how, "default" if cluster is None else "named"))
        out["sample"] = {"in_process_evolution": how, "cluster": cluster, "after": a["memento"]}


def run_case(case):
    out = {"viol": [], "nontrivial": [], "obs": collections.Counter()}

    def fail(sig, msg):
        if len(out["viol"]) < 8:
            out["viol"].append({"sig": sig, "msg": msg})

    {"parse": run_parse, "store": run_store, "evolve": run_evolve, "evolve_inproc": run_evolve_inproc}[case["kind"]](case, out, fail)
    out["obs"] = dict(out["obs"])
    return out


def conclude(agg):
    return core.first(core.need(agg, "names_parsed", 1500), core.need(agg, "names_stored_and_looked_up", 100),
                      core.need(agg, "evolved_processes_observed", 40), core.need(agg, "references_to_old_versions_checked", 50),
                      core.need(agg, "function_valued_arguments_read_back", 20),
                      core.need(agg, "references_checked_after_in_process_evolution", 40), core.need(agg, "ambiguous_names_seen", 1)), {}
