"""C17 — partitions round-trip key by key and merge as an overlay of their parents.

Monitors: key set and per-key values of every partition handed back (by the computing call, by a
later call, by a cache-less re-read), body executions.  Oracle: the overlay closed form."""
import collections

from vf import core, domain, env

ID = "C17"
LEVEL = "exploration"
RULE = ("chains p0 <- p1 <- ... of length 1..5 of partitions (InMemoryPartition / OnDiskPartition per level) "
        "whose dictionaries (0-4 keys from a small overlapping pool, values from the result domain) are "
        "generated from the seed; each level is a memento call that builds its partition and declares the "
        "partition returned by the nested call of the previous level as merge parent; the parent reaches "
        "the child 'fresh' (computed inside the same outer call), 'from disk' (memoized earlier, cache "
        "absent or cleared) or 'from cache' (memoized earlier, served by the memory cache); back-ends "
        "{filesystem, filesystem + 4 KiB cache, filesystem + 16 MiB cache}; every handed-back partition is "
        "compared with the overlay of levels 0..k key by key, each key loaded on its own, before and after "
        "later calls (also at the end, after children and one or two *sibling* children of a random level were "
        "stored on top of it), and re-read through a cache-less backend; non-trivial = distinct (chain length, kinds, "
        "parent provenances, backend) with at least one overlapping key"
        '; values may be partitions; a pass-through function hands levels on as its own result'
        '; rounds 7-9: equal-comparing values of different types, levels held as values of in-memory / on-disk partitions before a further child is made (holder forgotten in between), a child stored in another cluster than its parent'
        '; rounds 10-11: read-back handles given a merge parent, parents whose latest store is gone, children of a parent whose own store failed part-way'
        '; round 13: on-disk levels that assign their keys twice'
        '; round 15: a parent published under a key override, child stored where the same override names exist'
        '; round 16: dictionaries with non-string keys and lists holding tuples among the values')
ASSUMPTIONS = ["a child declares its parent by setting _merge_parent, as the repository's own tests do",
               "values inside partitions are drawn from the non-partition result domain"]
TIMEOUT = 600
BACKENDS = ["fs", "fs+4KiB", "fs+16MiB"]
KEYPOOL = ["a", "b", "c", "k 1", "é", "x/y"]


def cases(tier, seed):
    n = 150 if tier == "quick" else 5000
    for i in range(n):
        yield {"seed": seed, "idx": i}


def level_factory(seed, idx, lvl, keys):
    def make():
        from twosigma.memento.partition import InMemoryPartition

        r = core.rng_for(seed, ID, idx, "lvl", lvl)
        d = {k: domain.gen_result(r, 1) for k in keys}
        if idx % 3 == 0 and keys:  # equal-comparing values of different types under different keys
            twins = [1, 1.0, True, 0.0, -0.0]
            for n_, k in enumerate(keys):
                d[k] = twins[(n_ + (lvl if isinstance(lvl, int) else 0)) % len(twins)]
        if idx % 4 == 1 and keys:  # small containers that plain JSON would not give back as they are
            d[keys[0]] = {1: "a", 2: [1, 2], (3, 4): None} if (isinstance(lvl, int) and lvl % 2) else {1: "a", 2: [1, 2]}
            d[keys[-1]] = [1, (2, 3), {"k": (4,)}] if len(keys) > 1 else d[keys[0]]
        rn = core.rng_for(seed, ID, idx, "nested", lvl)
        for k in keys:  # now and then a value is a partition itself (built afresh on every call, like any value here)
            if rn.random() < 0.12:
                d[k] = InMemoryPartition({nk: domain.gen_result(rn, 1) for nk in rn.sample(["n1", "n2", "n3"], rn.randint(0, 3))})
        return d
    return make


def check_partition(out, fail, got, overlay, label, what):
    out["obs"]["partitions_compared"] += 1
    try:
        keys = sorted(got.list_keys())
    except Exception as e:
        return fail("listing the keys of a partition raises " + type(e).__name__, "%s %s: %r" % (label, what, e))
    if keys != sorted(overlay):
        return fail("key set of the stored partition differs from the overlay of its parents",
                    "%s %s: expected keys %s got %s" % (label, what, sorted(overlay), keys))
    for k in keys:
        out["obs"]["keys_loaded_individually"] += 1
        try:
            v = got.get(k)
        except Exception as e:
            fail("a key of a partition cannot be loaded (%s)" % type(e).__name__,
                 "%s %s key %r: %s" % (label, what, k, str(e)[:200]))
            continue
        same, err = domain.eq_safe(v, overlay[k])
        if err:  # the value was handed out, but using it (a nested partition's keys) raises
            fail("a key of a partition cannot be loaded (%s)" % err.split(":")[0].split("(")[0].strip(),
                 "%s %s key %r: using the value raises %s" % (label, what, k, err[:200]))
        elif not same:
            fail("a key of a partition reads a value other than the overlay's (own keys win, parent-only keys remain)",
                 "%s %s key %r: expected %s got %s" % (label, what, k, domain.describe(overlay[k], 60),
                                                      domain.describe(v, 60)))


def run_case(case):
    from vf import ffuncs
    from vf.recorder import REC

    out = {"viol": [], "nontrivial": [], "obs": collections.Counter(), "sets": {"provenances": set()}}
    rng = core.rng_for(case["seed"], ID, case["idx"])
    L = rng.choice([1, 2, 2, 3, 3, 4, 5])
    bname = rng.choice(BACKENDS)
    kinds = [rng.choice(["mem", "mem", "disk"]) for _ in range(L)]
    keysets = [rng.sample(KEYPOOL, rng.randint(0, 4)) for _ in range(L)]
    modes = [None] + [rng.choice(["fresh", "disk", "cache"] if bname != "fs" else ["fresh", "disk"]) for _ in range(L - 1)]
    cid = "chain-%d-%d" % (case["seed"], case["idx"])
    containers = [rng.choice(["dict", "dict", "defaultdict", "ordered"]) for _ in range(L)]
    spec = [{"kind": kinds[l], "make": level_factory(case["seed"], case["idx"], l, keysets[l]), "container": containers[l],
             # (on-disk levels of every other case assign their keys twice: a shared first value, then the real one)
             "reassign": case["idx"] % 2 == 1}
            for l in range(L)]
    ffuncs.TABLE[cid] = spec
    overlays, cur = [], {}
    for l in range(L):
        cur = dict(cur)
        cur.update(spec[l]["make"]())
        overlays.append(cur)
    overlap = any(set(keysets[i]) & set(keysets[j]) for i in range(L) for j in range(i))
    label = "backend %s kinds %s (mappings given as %s) keys %s parent-provenance %s" % (bname, kinds, containers, keysets, modes[1:])

    def fail(sig, msg):
        if len(out["viol"]) < 8:
            out["viol"].append({"sig": sig, "msg": msg})

    with env.Scratch() as sc:
        mb = {"fs": None, "fs+4KiB": 4 * env.KIB, "fs+16MiB": 16}[bname]
        st = env.fs_backend(sc.path("s"), cache_mb=mb)
        env.set_env(sc.path("env"), default_storage=st, clusters={"c": env.fs_backend(sc.path("c"), cache_mb=mb)})
        plain = env.fs_backend(sc.path("s"))
        held = []
        for l in range(L):
            nxt = modes[l + 1] if l + 1 < L else None
            if nxt == "fresh":
                continue  # this level is computed inside the call of the next one
            if st._memory_cache is not None and l > 0 and modes[l] == "disk":
                st._memory_cache.forget_everything()
            mark = REC.mark()
            try:
                got = ffuncs.chain(cid, l)
            except Exception as e:
                fail("call returning a partition raises " + type(e).__name__, "%s level %d: %r" % (label, l, e))
                break
            ran = [e[1][1] for e in REC.since(mark)]
            out["obs"]["computing_calls"] += 1
            out["sets"]["provenances"].add("%s|%s|%s" % (kinds[l], modes[l], bname))
            check_partition(out, fail, got, overlays[l], label, "level %d, value handed back by the computing call" % l)
            held.append((l, got))
            # later call: body must not run, value equal
            mark = REC.mark()
            again = ffuncs.chain(cid, l)
            if REC.since(mark):
                fail("a partition result was not memoized (body ran again on the next call)",
                     "%s level %d: bodies run again: %s" % (label, l, [e[1] for e in REC.since(mark)]))
            else:
                out["obs"]["served_without_body"] += 1
            check_partition(out, fail, again, overlays[l], label, "level %d, later call" % l)
            # cache-less re-read from disk
            m = ffuncs.chain.memento(cid, l)
            if m is None:
                fail("a partition result was not memoized (no memento)", "%s level %d" % (label, l))
            else:
                check_partition(out, fail, plain.read_result(m), overlays[l], label, "level %d, re-read from disk" % l)
            if nxt == "disk" and st._memory_cache is not None:
                st._memory_cache.forget_everything()
        gone_levels = set()  # levels that were held as a value of a partition which is gone by now
        # siblings: further children of a partition that already has a child
        if L > 1 and not out["viol"]:
            for tag in ["s1", "s2"][: rng.randint(1, 2)]:
                j = rng.randint(1, L - 1)
                sk = rng.sample(KEYPOOL, rng.randint(1, 3))
                sspec = {"kind": rng.choice(["mem", "disk"]), "make": level_factory(case["seed"], case["idx"], "sib" + tag, sk),
                         "container": rng.choice(["dict", "defaultdict"])}
                ffuncs.TABLE[cid + "/sib/" + tag] = sspec
                want = dict(overlays[j - 1])
                want.update(sspec["make"]())
                smode = rng.choice(["disk", "cache"] if st._memory_cache is not None else ["disk"])
                if smode == "disk" and st._memory_cache is not None:
                    st._memory_cache.forget_everything()
                if rng.random() < 0.5:
                    # before the new child is made, another function puts the parent-to-be (as it is served now) into a
                    # partition of its own as a value: an on-disk partition stages its values in a directory of its own
                    skind = rng.choice(["mem", "disk"])
                    try:
                        sgot = ffuncs.stage(cid, j - 1, skind)
                        out["obs"]["partitions_held_as_a_value_of_another_partition"] += 1
                        if sorted(sgot.list_keys()) != ["held", "n"]:
                            fail("key set of the stored partition differs from the overlay of its parents",
                                 "%s: partition holding level %d as a value lists %s" % (label, j - 1, sorted(sgot.list_keys())))
                        else:
                            check_partition(out, fail, sgot.get("held"), overlays[j - 1], label,
                                            "level %d held as a value of a %s partition" % (j - 1, skind))
                            stm = ffuncs.stage.memento(cid, j - 1, skind)
                            if stm is not None:
                                check_partition(out, fail, plain.read_result(stm).get("held"), overlays[j - 1], label,
                                                "level %d held as a value of a %s partition, re-read from disk" % (j - 1, skind))
                    except Exception as e:
                        fail("call returning a partition raises " + type(e).__name__, "%s holder of level %d: %r" % (label, j - 1, e))
                        break
                    if rng.random() < 0.5:
                        # ... and that holder is forgotten and gone (with its staging directory) before the child is made
                        import gc

                        ffuncs.stage.forget(cid, j - 1, skind)
                        sgot = None
                        gc.collect()
                        gone_levels.add(j - 1)
                        out["obs"]["holders_gone_before_the_next_child_was_made"] += 1
                try:
                    got = ffuncs.sibling(cid, j, tag)
                except Exception as e:
                    fail("call returning a partition raises " + type(e).__name__, "%s sibling of level %d: %r" % (label, j, e))
                    break
                out["obs"]["sibling_children"] += 1
                out["sets"]["provenances"].add("sibling|%s|%s|%s" % (sspec["kind"], smode, bname))
                what = "second child (keys %s, parent from %s) of level %d" % (sk, smode, j - 1)
                check_partition(out, fail, got, want, label, what + ", value handed back by the computing call")
                mark = REC.mark()
                later = ffuncs.sibling(cid, j, tag)
                if REC.since(mark):
                    fail("a partition result was not memoized (body ran again on the next call)",
                         "%s %s: bodies run again: %s" % (label, what, [e[1] for e in REC.since(mark)]))
                check_partition(out, fail, later, want, label, what + ", later call")
                sm = ffuncs.sibling.memento(cid, j, tag)
                if sm is not None:
                    check_partition(out, fail, plain.read_result(sm), want, label, what + ", re-read from disk")
                held.append((("sib", tag, j), got, want))
        # a child that lives in another cluster (another store) than its parent
        if L > 1 and not out["viol"]:
            j = rng.randint(1, L - 1)
            if gone_levels:  # (aimed: the parent is a level whose last store went to a staging directory that is gone)
                j = min(gone_levels) + 1
            sk = rng.sample(KEYPOOL, rng.randint(1, 3))
            sspec = {"kind": rng.choice(["mem", "disk"]), "make": level_factory(case["seed"], case["idx"], "sibx", sk), "container": "dict"}
            ffuncs.TABLE[cid + "/sib/x"] = sspec
            want = dict(overlays[j - 1])
            want.update(sspec["make"]())
            what = "child (keys %s) of level %d stored in another cluster" % (sk, j - 1)
            try:
                got = ffuncs.csibling(cid, j, "x")
                out["obs"]["children_stored_in_another_cluster"] += 1
                check_partition(out, fail, got, want, label, what + ", value handed back by the computing call")
                mark = REC.mark()
                later = ffuncs.csibling(cid, j, "x")
                if REC.since(mark):
                    fail("a partition result was not memoized (body ran again on the next call)", "%s %s" % (label, what))
                check_partition(out, fail, later, want, label, what + ", later call")
                cm = ffuncs.csibling.memento(cid, j, "x")
                if cm is not None:
                    check_partition(out, fail, env.fs_backend(sc.path("c")).read_result(cm), want, label, what + ", re-read from disk")
            except Exception as e:
                fail("call returning a partition raises " + type(e).__name__, "%s %s: %r" % (label, what, e))
        # a parent published under a key override in one store, a child in another store that already holds entries under the
        # same override names (another partition published there under the same key)
        if case["idx"] % 2 == 0 and not out["viol"]:
            pk = KEYPOOL[: 2 + case["idx"] % 3]
            ck = [KEYPOOL[(case["idx"] // 2) % len(KEYPOOL)]]
            for name, keys, lvl in (("oparent", pk, "op"), ("cother", pk, "co"), ("ochild", ck, "oc")):
                ffuncs.TABLE[cid + "/" + name] = {"kind": ["mem", "disk"][(case["idx"] // 2 + len(name)) % 2],
                                                  "make": level_factory(case["seed"], case["idx"], lvl, keys), "container": "dict"}
            want = dict(ffuncs.TABLE[cid + "/oparent"]["make"]())
            want.update(ffuncs.TABLE[cid + "/ochild"]["make"]())
            what = "child (keys %s) in another cluster of a parent (keys %s) published under a key override that the child's store knows too" % (ck, pk)
            try:
                ffuncs.cother(cid)
                got = ffuncs.ochild(cid)
                out["obs"]["children_of_a_parent_under_a_key_override"] += 1
                check_partition(out, fail, got, want, label, what + ", value handed back by the computing call")
                later = ffuncs.ochild(cid)
                check_partition(out, fail, later, want, label, what + ", later call")
                cm = ffuncs.ochild.memento(cid)
                if cm is not None:
                    check_partition(out, fail, env.fs_backend(sc.path("c")).read_result(cm), want, label, what + ", re-read from disk")
                check_partition(out, fail, ffuncs.cother(cid), dict(ffuncs.TABLE[cid + "/cother"]["make"]()), label,
                                "the other partition published under that key override, later call")
            except Exception as e:
                fail("call returning a partition raises " + type(e).__name__, "%s %s: %r" % (label, what, e))
        # a function that hands on, as its own result, the partition another function returned (computed just now, served
        # from the cache, or read back from disk)
        if not out["viol"]:
            for l in sorted({rng.randrange(L), L - 1}):
                if not any(h[0] == l for h in held):
                    continue
                pmode = rng.choice(["disk", "cache"] if st._memory_cache is not None else ["disk"])
                if pmode == "disk" and st._memory_cache is not None:
                    st._memory_cache.forget_everything()
                try:
                    got = ffuncs.passthru(cid, l)
                except Exception as e:
                    fail("call returning a partition raises " + type(e).__name__, "%s pass-through of level %d: %r" % (label, l, e))
                    continue
                out["obs"]["partitions_handed_on_by_another_function"] += 1
                what = "level %d handed on by another function (it got it from %s)" % (l, pmode)
                check_partition(out, fail, got, overlays[l], label, what + ", value handed back by the computing call")
                mark = REC.mark()
                again = ffuncs.passthru(cid, l)
                if REC.since(mark):
                    fail("a partition result was not memoized (body ran again on the next call)", "%s %s" % (label, what))
                check_partition(out, fail, again, overlays[l], label, what + ", later call")
                pm = ffuncs.passthru.memento(cid, l)
                if pm is not None:
                    check_partition(out, fail, plain.read_result(pm), overlays[l], label, what + ", re-read from disk")
        # values handed out earlier stay usable after everything else happened, and every level is still
        # served (from the cache, where there is one) as the overlay it was, whatever was stored on top of it
        for item in held:
            l, got = item[0], item[1]
            want = item[2] if len(item) > 2 else overlays[l]
            check_partition(out, fail, got, want, label, "%s, first value re-used at the end" % (l,))
        for l in range(L):
            if not any(h[0] == l for h in held):
                continue
            mark = REC.mark()
            try:
                again = ffuncs.chain(cid, l)
            except Exception as e:
                fail("call returning a partition raises " + type(e).__name__, "%s level %d at the end: %r" % (label, l, e))
                continue
            if REC.since(mark):
                fail("a partition result was not memoized (body ran again on the next call)",
                     "%s level %d at the end: bodies run again: %s" % (label, l, [e[1] for e in REC.since(mark)]))
            out["obs"]["levels_served_again_at_the_end"] += 1
            check_partition(out, fail, again, overlays[l], label, "level %d, served again after its children were stored" % l)
        # a parent whose own store fails part-way (one of its values cannot be stored) is handed to the caller all the same;
        # a child that declares it as merge parent shows the whole overlay at every call, memoized or not
        if case["idx"] % 3 == 0 and not out["viol"]:
            for n in range(3):
                try:
                    got = ffuncs.child_of_unstorable(cid)
                except Exception as e:
                    fail("call returning a partition raises " + type(e).__name__, "%s child of a parent that could not be stored: %r" % (label, e))
                    break
                out["obs"]["children_of_a_parent_that_could_not_be_stored"] += 1
                keys = sorted(got.list_keys())
                vals = {k: got.get(k) for k in ("alpha", "gamma", "own", "shared") if k in keys}
                if keys != ["alpha", "beta", "gamma", "own", "shared"] or vals != {"alpha": 1, "gamma": 3, "own": 7, "shared": "child's"}:
                    fail("key set of the stored partition differs from the overlay of its parents",
                         "%s: child of a parent whose store failed part-way, call %d: keys %s values %s" % (label, n, keys, vals))
        # at the very end, on a store without memory cache (the handle is nobody else's): a partition read back from the
        # store is given another level as merge parent and handed on - what the function returns, what a later call gets
        # and what is read back must be the same overlay (the handle's own entries win)
        if L > 1 and st._memory_cache is None and not out["viol"]:
            l, under = rng.sample(range(L), 2)
            if any(h[0] == l for h in held) and any(h[0] == under for h in held):
                want = dict(overlays[under])
                want.update(overlays[l])
                what = "level %d read back and given level %d as merge parent" % (l, under)
                try:
                    got = ffuncs.rebased(cid, l, under)
                    out["obs"]["read_back_partitions_given_a_merge_parent"] += 1
                    check_partition(out, fail, got, want, label, what + ", value handed back by the computing call")
                    check_partition(out, fail, ffuncs.rebased(cid, l, under), want, label, what + ", later call")
                    rm = ffuncs.rebased.memento(cid, l, under)
                    if rm is not None:
                        check_partition(out, fail, plain.read_result(rm), want, label, what + ", re-read from disk")
                except Exception as e:
                    fail("call returning a partition raises " + type(e).__name__, "%s %s: %r" % (label, what, e))
        if overlap and L > 1 and not out["viol"]:
            out["nontrivial"].append("%d|%s|%s|%s" % (L, ",".join(kinds), ",".join(modes[1:]), bname))
        out["sample"] = {"backend": bname, "kinds": kinds, "keys": keysets, "parent_provenance": modes[1:]}
    out["obs"] = dict(out["obs"])
    out["sets"] = {k: sorted(v) for k, v in out["sets"].items()}
    return out


def conclude(agg):
    return core.first(core.need(agg, "partitions_compared", 500), core.need(agg, "keys_loaded_individually", 1000),
                      core.need(agg, "served_without_body", 100), core.need(agg, "sibling_children", 30),
                      core.need(agg, "levels_served_again_at_the_end", 100),
                      None if len(agg.sets.get("provenances", ())) >= 12 else "too few provenance combinations"), {}
