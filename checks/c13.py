"""C13 — the in-process version cache is coherent with a from-scratch computation.

Monitor: version() of every registered memento function after every prefix of an in-process event
sequence (with queries of random subsets in between).  Oracle: the versions a pristine forked child
computes for the program as it stands after that prefix, executing the identical compilation units
(base files with superseded definitions cut out, then the surviving cells, each compiled separately
under the same pseudo-filename)."""
import collections
import importlib
import json
import linecache
import os
import sys

from vf import core, env, procs, progs
from checks import c01

ID = "C13"
LEVEL = "exploration"
RULE = ("event sequences (8 quick / 14 thorough) over generated two-module programs: redefinition of memento functions "
        "and plain / wrapped helpers (constants, operators, defaults, call edges), rebinding and in-place mutation "
        "of tracked variables, alias re-binding, reference to a symbol that is defined only later, memento -> plain "
        "-> memento switches, creation of modifier clones (partial, ignore_result, with_context_args, force_local) "
        "and of unregistered wrappers, with version queries of ALL functions after every event and of random "
        "subsets in between; non-trivial = distinct (sequence, position) pairs at which the oracle's version map "
        "changed"
        '; re-binding templates include module aliases and late attributes of one name'
        '; rounds 7-9: memento functions re-bound to plain functions / clones / wrappers / other memento functions, a function with a declared dependency, several statements with all versions asked after each (variable to an opaque object and back, module alias in front of an undefined attribute, helper name to an array)'
        '; rounds 10-11: opaque -> describable values of the same type, opaque containers changed in place, helper names bound to functions of another package'
        '; round 13: half of the re-binding scenarios in a named cluster, the same-named variable of another module, a registry of memento functions'
        '; round 14: a list bound by a module-level partial clone changed in place; the oracle process computes from scratch (generation bumped after the module ran)'
        '; round 15: an attribute that starts being served by a module __getattr__; event sequences judged against a from-scratch oracle')
ASSUMPTIONS = ["a clone or an unregistered wrapper is judged only right after its creation (it is a run-time value, "
               "not program text)", "locked clusters are excluded, as the property says",
               "imports and aliases that copy a re-executed definition are re-executed as well, so that the "
               "process state corresponds to a program text"]
TIMEOUT = 900
SPECIAL = ["late_ref", "late_def", "to_plain", "to_memento"]
RUNTIME = ["clone", "wrapper", "query_subset"]
EDITS = ["const", "tconst", "tperm", "builtin", "sconst", "nested_const", "gx_const", "lamdefault", "op", "swap", "add_param", "default", "kwdefault", "add_call",
         "remove_call", "retarget_call", "retarget_alias", "var_value", "var_mutate"]


def cases(tier, seed):
    n, length = (60, 8) if tier == "quick" else (3000, 14)
    for i in range(n):
        yield {"seed": seed, "idx": i, "length": length}
    for i in range(40 if tier == "quick" else 400):
        yield {"kind": "rebind", "seed": seed, "idx": i}


def build_events(case):
    rng = core.rng_for(case["seed"], ID, case["idx"])
    prog = progs.gen_program(rng, "vp13_%d_%d" % (case["seed"], case["idx"]), p_explicit=0.0, p_hidden=0.05)
    events = [(prog, {"kind": "initial"})]
    for _ in range(case["length"]):
        r = rng.random()
        if r < 0.18:
            kind = rng.choice(RUNTIME)
            events.append((prog, {"kind": kind, "seed": rng.randrange(1 << 30)}))
            continue
        if r < 0.24 and rng.random() < 0.5:
            # aimed pair: a variable that a memento function reads is re-bound / mutated, nobody asks for a version, and a
            # modifier clone of that function is made right away (the clone is asked for its version)
            users = [i for i, nd in enumerate(prog["nodes"]) if nd["reads"] and nd["kind"] == "memento"]
            if users:
                i = rng.choice(users)
                vj = rng.choice(prog["nodes"][i]["reads"])["v"]
                res = progs.apply_edit(rng, prog, "var_mutate" if (prog["vars"][vj]["type"] in ("list", "dict") and rng.random() < 0.4)
                                       else "var_value", force_var=vj)
                if res is not None:
                    prog, vdesc = res
                    vdesc["silent"] = True
                    nd = prog["nodes"][i]
                    events += [(prog, vdesc), (prog, {"kind": "clone", "seed": rng.randrange(1 << 30), "of": [nd["mod"], nd["name"]]})]
                    continue
        if r < 0.3 and rng.random() < 0.4:
            # aimed pair: a function re-executed unchanged and a variable it reads re-bound / mutated, in either
            # order, with nobody asking for a version in between
            users = [i for i, nd in enumerate(prog["nodes"]) if nd["reads"]]
            if users:
                i = rng.choice(users)
                redef = {"kind": "redef_same", "node": i, "var": None, "changed_defs": [i]}
                vj = rng.choice(prog["nodes"][i]["reads"])["v"]
                res = progs.apply_edit(rng, prog, "var_mutate" if (prog["vars"][vj]["type"] in ("list", "dict") and rng.random() < 0.4)
                                       else "var_value", force_var=vj)
                if res is not None:
                    prog2, vdesc = res
                    if rng.random() < 0.5:
                        redef["silent"] = True
                        events += [(prog, redef), (prog2, vdesc)]
                    else:
                        vdesc["silent"] = True
                        events += [(prog2, vdesc), (prog2, redef)]
                    prog = prog2
                    continue
        if r < 0.36 and rng.random() < 0.35:
            # aimed pair: a function re-executed with a reference to a name that is bound only afterwards (an alias
            # statement follows the definition), nobody asks for a version, then an unregistered wrapper of it
            for _try in range(6):
                res = progs.apply_edit(rng, prog, rng.choice(["add_call", "retarget_call"]))
                if res is not None and res[1].get("alias_added") and res[0]["nodes"][res[1]["node"]]["kind"] == "memento":
                    prog, desc = res
                    desc["silent"] = True
                    nd = prog["nodes"][desc["node"]]
                    events += [(prog, desc), (prog, {"kind": "wrapper", "seed": rng.randrange(1 << 30), "of": [nd["mod"], nd["name"]]})]
                    break
            else:
                continue
            continue
        if r < 0.26:
            # a definition re-executed unchanged (a notebook cell run again, a module reloaded)
            i = rng.randrange(len(prog["nodes"]))
            res = (prog, {"kind": "redef_same", "node": i, "var": None, "changed_defs": [i]})
        elif r < 0.45:
            res = progs.apply_special(rng, prog, rng.choice(SPECIAL))
        else:
            res = progs.random_edit(rng, prog, EDITS)
        if res is None:
            continue
        prog, desc = res
        # now and then nobody asks for a version between two events
        desc["silent"] = rng.random() < 0.3
        events.append((prog, desc))
    return events


def memento_names(prog):
    return [[nd["mod"], nd["name"]] for nd in prog["nodes"] if nd["kind"] == "memento"]


def query(prog, pkg, names):
    out = {}
    for mod, name in names:
        try:
            out[name] = getattr(sys.modules[progs.modname({"pkg": pkg}, mod)], name).version()
        except Exception as e:
            import traceback

            out[name] = "raise:%s: %s | %s" % (type(e).__name__, str(e)[:150], traceback.format_exc()[-300:].replace("\n", " / "))
    return out


class CellLog:
    """Every cell executed in-process, so that the oracle can execute the identical compilation units."""

    def __init__(self):
        self.cells = []

    def exec(self, src, module, defines=None, mod=None):
        n = len(self.cells) + 1
        name = "<vf13-cell-%d>" % n
        linecache.cache[name] = (len(src), None, src.splitlines(True), name)
        exec(compile(src, name, "exec"), module.__dict__)
        self.cells.append({"n": n, "src": src, "mod": mod, "defines": defines})


def deliver(log, old, new, desc, pkg):
    """C01's cell-style delivery (progs.cell_statements), recorded cell by cell."""
    for mod, src, defines in progs.cell_statements(old, new, desc):
        log.exec(src, sys.modules[progs.modname(new, mod)], defines=defines, mod=mod)


def oracle_child(arg):
    """Pristine process: base files with superseded definitions cut out + surviving cells."""
    prog0, cells, pkg = arg["prog0"], arg["cells"], arg["pkg"]
    last_def = {}
    for c in cells:
        if c["defines"]:
            last_def[(c["mod"], c["defines"])] = c["n"]
    skip = {name for (_, name) in last_def if not name.startswith("import ")}
    progs.write_package(prog0, arg["src"], skip=skip)
    sys.path.insert(0, arg["src"])
    env.set_env(os.path.join(arg["src"], "env"), default_storage=env.mem_backend())
    c01.import_pkg(pkg)
    surviving = [c for c in cells if not (c["defines"] and last_def[(c["mod"], c["defines"])] != c["n"])]
    is_def = lambda c: bool(c["defines"]) and not c["defines"].startswith(("import ", "alias_"))

    def run(c):
        name = "<vf13-cell-%d>" % c["n"]
        linecache.cache[name] = (len(c["src"]), None, c["src"].splitlines(True), name)
        exec(compile(c["src"], name, "exec"), sys.modules[progs.modname(prog0, c["mod"])].__dict__)

    # definitions first (module-file order), then the statements that copy them (imports, aliases) and
    # the variable statements in their original order; a statement that names a function whose import
    # only follows later is retried at the end (it refers to the final definition either way)
    deferred = []
    for c in [c for c in surviving if is_def(c)]:
        run(c)
    for c in [c for c in surviving if not is_def(c)]:
        try:
            run(c)
        except (NameError, ImportError):
            deferred.append(c)
    for _ in range(3):
        again, deferred = deferred, []
        for c in again:
            try:
                run(c)
            except (NameError, ImportError):
                deferred.append(c)
    for c in deferred:
        run(c)
    # computed from scratch: everything the statements did is in place before a version is computed (in a correct
    # implementation no version depends on when it was first computed)
    from twosigma.memento.memento import MementoFunction as _MF

    _MF.increment_global_fn_generation()
    return query(None, pkg, arg["names"])


def inproc_child(arg):
    import twosigma.memento as m
    from twosigma.memento.memento import MementoFunction

    events = arg["events"]
    prog0 = events[0][0]
    pkg = prog0["pkg"]
    progs.write_package(prog0, arg["src"])
    sys.path.insert(0, arg["src"])
    env.set_env(os.path.join(arg["src"], "env"), default_storage=env.mem_backend())
    c01.import_pkg(pkg)
    log = CellLog()
    rng = core.rng_for("c13-runtime", arg["seed"])
    steps = []
    prev = prog0
    for k, (prog, desc) in enumerate(events):
        extra = {}
        kind = desc["kind"]
        names = memento_names(prog)
        if kind in ("clone", "wrapper", "query_subset"):
            r = core.rng_for(desc["seed"])
            if kind == "query_subset":
                sub = [n for n in names if r.random() < 0.5]
                extra["subset"] = query(prog, pkg, sub)
            elif names:
                mod, name = r.choice(names)
                if desc.get("of") and desc["of"] in names:
                    mod, name = desc["of"]
                fn = getattr(sys.modules[progs.modname(prog, mod)], name)
                try:
                    if kind == "clone":
                        how = r.choice(["partial", "ignore_result", "with_context_args", "force_local", "chain"])
                        obj = {"partial": lambda: fn.partial(1), "ignore_result": lambda: fn.ignore_result(),
                               "with_context_args": lambda: fn.with_context_args({"t": 1}),
                               "force_local": lambda: fn.force_local(),
                               "chain": lambda: fn.force_local().partial(x=2).ignore_result()}[how]()
                    else:
                        how = "MementoFunction(fn.fn, register_fn=False)"
                        obj = MementoFunction(fn.fn, register_fn=False)
                    extra["runtime_object"] = {"of": name, "how": how, "version": obj.version()}
                except Exception as e:
                    import traceback

                    extra["runtime_object"] = {"of": name, "how": how if "how" in dir() else kind,
                                               "version": "raise:%s: %s | %s" % (type(e).__name__, str(e)[:100],
                                                                               traceback.format_exc()[-300:].replace("\n", " / "))}
        elif k > 0:
            deliver(log, prev, prog, desc, pkg)
            prev = prog
        if desc.get("silent"):
            steps.append({"versions": {}, "cells": len(log.cells), "names": [], "silent": True})
            continue
        steps.append({"versions": query(prog, pkg, names), "cells": len(log.cells), "names": names, **extra})
    return {"steps": steps, "cells": log.cells}


# ---------------------------------------------------------------- helpers re-bound to functions of other modules
REBIND_MAIN = """import twosigma.memento as m
from vf.recorder import REC
%(import_other)s
FACTOR = %(f_main)d
CL = %(cl)r

def scale(x):
    return x %(op)s FACTOR

def scale2(x):
    return x %(op)s FACTOR %(op)s 2

@m.memento_function(cluster=CL)
def report(x):
    REC.hit("report", x)
    return scale(x) + 1

@m.memento_function(cluster=CL)
def report2(x):
    REC.hit("report2", x)
    return scale2(x) + 2

@m.memento_function(cluster=CL, auto_dependencies=False, dependencies=[report])
def declared(x):
    # (its only dependency is the declared one: nothing is detected from the body)
    REC.hit("declared", x)
    return report(x) + 3

@m.memento_function(cluster=CL)
def total(x):
    REC.hit("total", x)
    return report(x) + %(const)d + FACTOR + cfg.oscale(x)

@m.memento_function(cluster=CL)
def viareg(x):
    # (reads a registry that holds memento functions, itself among them)
    REC.hit("viareg", x)
    return len(HANDLERS) + x

HANDLERS = {"viareg": viareg, "report": report}

TABLE = {"k": 1}

@m.memento_function(cluster=CL)
def viadefault(x, table=TABLE):
    # (a default value that is a container of the module)
    return table["k"] + x

@m.memento_function(cluster=CL)
def viacaller(x):
    return viadefault(x) + 1

LIMITS = [1, 2]

@m.memento_function(cluster=CL)
def weigh(limits, x):
    return x + len(limits)

bound = weigh.partial(LIMITS)   # a module-level modifier clone that binds a list of the module

@m.memento_function(cluster=CL)
def viabound(x):
    REC.hit("viabound", x)
    return bound(x)

import %(pkg)s.other as cfg
import %(pkg)s.other2 as cfg2
import %(pkg)s.lazy as lz

@m.memento_function(cluster=CL)
def viaattr(x):
    REC.hit("viaattr", x)
    return cfg.scale(x) + cfg.FACTOR

@m.memento_function(cluster=CL)
def twice(x):
    REC.hit("twice", x)
    if x < -1000:
        return cfg.later(x) + cfg2.later(x) + later(x) + lz.later(x)
    return x
"""
REBIND_OTHER = """import twosigma.memento as m
FACTOR = %(f_other)d
CL = %(cl)r

@m.memento_function(cluster=CL)
def oscale(x):
    return x + FACTOR

def scale(x):
    return x %(op)s FACTOR

def scale3(x):
    return x %(op)s FACTOR %(op)s 3
"""
REBIND_OTHER2 = """FACTOR = %(f_other)d + 10

def scale(x):
    return x %(op)s FACTOR %(op)s 7

def scale3(x):
    return x %(op)s FACTOR %(op)s 4
"""
ASKED = ("report", "total", "viaattr", "twice", "declared", "viareg", "viabound", "viadefault", "viacaller")
REBINDS = {  # statement executed in the main module, after versions were asked once
    # the name of a memento function re-bound to its plain function / a modifier clone / an unregistered wrapper
    "memento_to_its_plain_function": "report = report.fn",
    "memento_to_a_modifier_clone": "report = report.force_local()",
    "memento_to_an_unregistered_wrapper": "report = m.memento.MementoFunction(report.fn, version_salt=\"s\", register_fn=False)",
    "memento_to_another_memento_function": "report = report2",
    "module_alias": "import %(pkg)s.other2 as cfg",   # the module alias through which a helper and a variable are reached
    "late_attribute_of_the_second_module": "cfg2.later = cfg2.scale3",  # one of three undefined symbols of one name
    "late_attribute_of_the_first_module": "cfg.later = cfg.scale3",
    "late_global_of_the_same_name": "later = scale2",
    "same_code_other_globals": "from %(pkg)s.other import scale",           # byte-identical code, another FACTOR
    "other_code": "from %(pkg)s.other import scale3 as scale",
    "own_sibling": "scale = scale2",
    "attribute": "import %(pkg)s.other as _o\nscale = _o.scale",
    "variable_only": "FACTOR = FACTOR + 5",
    # the variable of the same name in the other module (which a memento function of that module uses directly)
    "variable_of_the_other_module": "cfg.FACTOR = cfg.FACTOR + 3",
    # several statements: every version is asked after each of them
    # ... a tracked variable becomes something memento cannot describe, then a plain value again
    "variable_to_an_opaque_object_and_back": ["FACTOR = object()", "FACTOR = 7"],
    # ... the module alias in front of an undefined attribute is re-bound to a module that has the attribute
    "module_alias_in_front_of_an_undefined_attribute": ["import %(pkg)s.other3 as cfg"],
    # ... a tracked variable goes from a value memento cannot describe to one of the same type that it can
    "variable_from_an_opaque_dict_to_a_plain_dict": ["FACTOR = {(1, 2): 3}", "FACTOR = {\"a\": 3}"],
    # ... an opaque container is changed in place into one memento can describe
    "opaque_list_changed_in_place": ["FACTOR = [{1, 2}]", "FACTOR[0] = 5"],
    # ... a helper's name is bound to a function of another package, then to a function of the program
    "helper_name_to_a_foreign_function_and_back": ["import json\nscale = json.dumps", "scale = scale2"],
    # ... an undefined attribute starts being served by the module's __getattr__
    "late_attribute_served_by_a_module_getattr": ["lz._LATE[\"later\"] = scale2"],
    # ... a container that is the default value of a parameter of a memento function is changed in place
    "default_value_container_changed_in_place": ["TABLE[\"k\"] = 2"],
    "default_value_container_of_a_callee_changed_in_place": ["TABLE[\"k\"] = 3"],
    # ... the list that a module-level partial clone binds is changed in place
    "argument_bound_by_a_partial_clone_changed_in_place": ["LIMITS.append(3)"],
    # ... the name of a plain helper is re-bound to an array
    "helper_name_to_an_array": ["import numpy as _np\nscale = _np.arange(3)"],
}
REBIND_LAZY = """# a module that serves some of its attributes on demand
_LATE = {}

def __getattr__(name):
    try:
        return _LATE[name]
    except KeyError:
        raise AttributeError(name)
"""
REBIND_OTHER3 = REBIND_OTHER + """
def later(x):
    return x %(op)s 11
"""


def rebind_child(arg):
    root, pkg, how = arg["root"], arg["pkg"], arg["how"]
    sys.path.insert(0, root)
    env.set_env(os.path.join(root, "env"), default_storage=env.mem_backend(), clusters={"named.cl": env.mem_backend()})
    main = importlib.import_module(pkg + ".main")
    # (a name may be bound to a plain function by the statement under test: only memento functions are asked)
    def ask(n):
        try:
            return getattr(main, n).version()
        except Exception as e:
            return "raise:%s: %s" % (type(e).__name__, str(e)[:120])

    res = {"before": {n: ask(n) for n in ASKED if hasattr(getattr(main, n), "version")}}
    if arg.get("live"):
        if arg.get("call_first"):
            main.total(3)
        stmts = REBINDS[how] if isinstance(REBINDS[how], list) else [REBINDS[how]]
        for k, stmt in enumerate(stmts):
            src = stmt % {"pkg": pkg} + "\n"
            name = "<vf13-rebind-%d>" % k
            linecache.cache[name] = (len(src), None, src.splitlines(True), name)
            exec(compile(src, name, "exec"), main.__dict__)
            if k + 1 < len(stmts):  # every version is asked between two statements
                res.setdefault("between", []).append({n: ask(n) for n in ASKED
                                                      if hasattr(getattr(main, n), "version")})
    if not arg.get("live"):
        # the oracle computes from scratch: everything the module's statements did is in place before a version is
        # computed (in a correct implementation no version depends on when it was first computed)
        from twosigma.memento.memento import MementoFunction as _MF

        _MF.increment_global_fn_generation()
    asked = ["twice", "viacaller", "declared", "viareg", "total", "viabound", "viaattr", "viadefault", "report"] if arg.get("order") else ["report", "viaattr", "viadefault", "total", "twice", "viabound", "viacaller", "declared", "viareg"]
    if arg.get("first") in asked:  # (whoever is asked first gets no help from another function's query)
        asked = [arg["first"]] + [n for n in asked if n != arg["first"]]
    for n in asked:
        if not hasattr(getattr(main, n), "version"):
            continue
        try:
            res.setdefault("after", {})[n] = getattr(main, n).version()
        except Exception as e:
            res.setdefault("after", {})[n] = "raise:%s: %s" % (type(e).__name__, str(e)[:120])
    return res


def run_rebind(case):
    """A plain helper of a memento function is re-bound, in the running process and without any registration, to
    another existing function (of another module, with byte-identical or different code, ...). Oracle: a fresh
    process importing the text in which the re-binding statement follows the definitions."""
    import importlib as _il

    out = {"viol": [], "nontrivial": [], "obs": collections.Counter(), "sets": {"event_kinds": set()}}
    rng = core.rng_for(case["seed"], ID, "rebind", case["idx"])
    how = list(REBINDS)[case["idx"] % len(REBINDS)]
    pkg = "vp13r_%d_%d" % (case["seed"], case["idx"])
    params = {"f_main": rng.randint(2, 5), "f_other": rng.randint(6, 9), "op": rng.choice(["*", "+", "-"]), "const": rng.randint(1, 9),
              "import_other": "", "pkg": pkg,
              # (every other scenario puts all functions into a named cluster: their names start with "<cluster>::")
              "cl": "named.cl" if (case["idx"] // len(REBINDS)) % 2 else None}
    with env.Scratch() as sc:
        def write(root, tail):
            d = os.path.join(root, pkg)
            os.makedirs(d)
            open(os.path.join(d, "__init__.py"), "w").close()
            with open(os.path.join(d, "other.py"), "w") as f:
                f.write(REBIND_OTHER % params)
            with open(os.path.join(d, "other2.py"), "w") as f:
                f.write(REBIND_OTHER2 % params)
            with open(os.path.join(d, "other3.py"), "w") as f:
                f.write(REBIND_OTHER3 % params)
            with open(os.path.join(d, "lazy.py"), "w") as f:
                f.write(REBIND_LAZY)
            with open(os.path.join(d, "main.py"), "w") as f:
                f.write(REBIND_MAIN % params + tail)

        write(sc.path("live"), "")
        stmt_text = "\n".join(REBINDS[how]) if isinstance(REBINDS[how], list) else REBINDS[how]
        write(sc.path("fresh"), "\n" + stmt_text % {"pkg": pkg} + "\n")
        try:
            first = {"variable_of_the_other_module": "total", "argument_bound_by_a_partial_clone_changed_in_place": "viabound",
                     "late_attribute_served_by_a_module_getattr": "twice", "default_value_container_changed_in_place": "viadefault",
                     "default_value_container_of_a_callee_changed_in_place": "viacaller"}.get(how)
            live = procs.in_child(rebind_child, {"root": sc.path("live"), "pkg": pkg, "how": how, "live": True,
                                                "call_first": rng.random() < 0.5, "order": rng.random() < 0.5, "first": first})
            fresh = procs.in_child(rebind_child, {"root": sc.path("fresh"), "pkg": pkg, "how": how, "first": first})
        except procs.ChildFailed as e:
            out["viol"].append({"sig": "running a re-binding scenario failed (%s)" % e.kind, "msg": str(e)[-800:]})
            out["obs"] = dict(out["obs"])
            out["sets"] = {}
            return out
        out["sets"]["event_kinds"].add("rebind:" + how)
        for n, v in live["after"].items():
            out["obs"]["versions_compared"] += 1
            out["obs"]["versions_compared_after_rebinding_a_helper"] += 1
            if isinstance(v, str) and v.startswith("raise:") and not v.startswith("raise:DependencyNotFoundError"):
                # (a declared dependency that is no memento function any more is reported with the error the library
                # documents for required dependencies that cannot be found; anything else is an internal error)
                out["viol"].append({"sig": "asking a registered function for its version raises " + v.split(":")[1],
                                    "msg": "%s: %s.version() -> %s after statement %r" % (pkg, n, v, stmt_text % {"pkg": pkg})})
                continue
            if n not in fresh["after"]:
                continue
            if v != fresh["after"][n]:
                out["viol"].append({"sig": "in-process version differs from the version a fresh process computes (after a plain helper "
                                           "was re-bound to %s)" % how.replace("_", " "),
                                    "msg": "%s: %s has version %s in the running process (before: %s), %s from scratch; statement %r; "
                                           "parameters %s" % (pkg, n, v, live["before"].get(n), fresh["after"][n], stmt_text % {"pkg": pkg}, params)})
        if live["before"] != live["after"]:
            out["nontrivial"].append("rebind:%s:%d" % (how, case["idx"]))
        out["sample"] = {"rebind": how, "statement": stmt_text % {"pkg": pkg}, "before": live["before"], "after": live["after"]}
    out["obs"] = dict(out["obs"])
    out["sets"] = {k: sorted(v) for k, v in out["sets"].items()}
    return out


def run_case(case):
    if case.get("kind") == "rebind":
        return run_rebind(case)
    out = {"viol": [], "nontrivial": [], "obs": collections.Counter(), "sets": {"event_kinds": set()}}

    def fail(sig, msg):
        if len(out["viol"]) < 6:
            out["viol"].append({"sig": sig, "msg": msg})

    events = build_events(case)
    label = "sequence %d/%d" % (case["seed"], case["idx"])
    kinds = [d["kind"] for _, d in events]
    with env.Scratch() as sc:
        try:
            res = procs.in_child(inproc_child, {"events": events, "src": sc.path("src"), "seed": case["idx"]}, timeout=300)
        except procs.ChildFailed as e:
            fail("running an event sequence failed (%s)" % e.kind, "%s: %s; events %s" % (label, str(e)[-1200:], kinds))
            res = {"steps": [], "cells": []}
        prev_oracle = None
        for k, st in enumerate(res["steps"]):
            desc = events[k][1]
            out["sets"]["event_kinds"].add(desc["kind"])
            out["obs"]["event:" + desc["kind"]] += 1
            if st.get("silent"):
                out["obs"]["events_without_a_query_after_them"] += 1
                continue
            try:
                oracle = procs.in_child(oracle_child, {"prog0": events[0][0], "cells": res["cells"][: st["cells"]],
                                                      "pkg": events[0][0]["pkg"], "src": sc.path("o%d" % k), "names": st["names"]})
            except procs.ChildFailed as e:
                fail("harness: oracle process failed", "%s step %d: %s" % (label, k, str(e)[-800:]))
                continue
            out["obs"]["version_maps_compared"] += 1
            if prev_oracle is not None and oracle != prev_oracle:
                out["nontrivial"].append("%s:%d" % (label, k))
            prev_oracle = oracle
            for name, v in st["versions"].items():
                out["obs"]["versions_compared"] += 1
                if isinstance(v, str) and v.startswith("raise:"):
                    fail("asking a registered function for its version raises " + v.split(":")[1],
                         "%s step %d (%s): %s.version() -> %s; events %s" % (label, k, desc["kind"], name, v, kinds[: k + 1]))
                elif v != oracle.get(name):
                    fail("in-process version differs from the version a fresh process computes (after event '%s')" % desc["kind"],
                         "%s step %d: %s has version %s in the running process, %s from scratch; events so far %s; edit %s"
                         % (label, k, name, v, oracle.get(name), kinds[: k + 1], json.dumps(desc)[:300]))
            for name, v in (st.get("subset") or {}).items():
                out["obs"]["interleaved_queries"] += 1
                if v != oracle.get(name):
                    fail("in-process version differs from the version a fresh process computes (interleaved query)",
                         "%s step %d: %s -> %s vs %s" % (label, k, name, v, oracle.get(name)))
            ro = st.get("runtime_object")
            if ro:
                out["obs"]["runtime_objects_checked"] += 1
                if ro["version"].startswith("raise:"):
                    fail("asking a %s for its version raises %s" % ("modifier clone" if desc["kind"] == "clone" else "unregistered wrapper",
                                                                   ro["version"].split(":")[1]),
                         "%s step %d: %s of %s: %s" % (label, k, ro["how"], ro["of"], ro["version"]))
                elif ro["version"] != oracle.get(ro["of"]):
                    fail("version of a freshly created clone / wrapper differs from its function's from-scratch version",
                         "%s step %d: %s of %s -> %s vs %s" % (label, k, ro["how"], ro["of"], ro["version"], oracle.get(ro["of"])))
        out["sample"] = {"events": kinds, "cells": [c["src"][:80] for c in res["cells"][:3]]}
    out["obs"] = dict(out["obs"])
    out["sets"] = {k: sorted(v) for k, v in out["sets"].items()}
    return out


def conclude(agg):
    return core.first(core.need(agg, "versions_compared", 500), core.need(agg, "runtime_objects_checked", 10),
                      core.need(agg, "interleaved_queries", 10), core.need(agg, "versions_compared_after_rebinding_a_helper", 30),
                      None if len(agg.sets.get("event_kinds", ())) >= 15 else "too few event kinds"), {}
