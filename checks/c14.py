"""C14 — the static dependency closure is exact and calls outside it are refused.

Monitors: transitive / direct dependency sets and dependency-graph edges reported for every memento
function of a generated reference graph; the outcome of hidden dynamic calls at run time.
Oracle: graph reachability on the generated data."""
import collections
import copy
import importlib
import itertools
import json
import os
import sys

from vf import core, env, procs, progs

ID = "C14"
LEVEL = "exploration"
RULE = ("(A) ALL reference graphs over 3 nodes (root = memento function, the others memento or plain, every subset "
        "of the possible edges incl. self-loops and 2-cycles; references sit in a branch that is never executed) "
        "in the reference forms bare name, module.attr, alias and decorator-wrapped (thorough adds 4 nodes "
        "without self-loops), one pristine child per graph; (B) random two-module programs of C01's generator (up to "
        "7 nodes, executed call DAGs, all forms, hidden globals() calls): closure, direct set and graph edges against "
        "reachability, and every function is called: the call must raise the undeclared-dependency error iff an "
        "executed hidden call leaves the static closure of its calling memento function; (C) functions handed over as "
        "arguments (bare, in a list, in a dict); non-trivial = distinct graphs with >= 1 memento dependency reached "
        "only through a plain helper or a cycle"
        '; further forms: lambda, factory, xdeco (decorator from another module), nestedlocal; graph edges and callees-first calls also in random programs; function-valued defaults'
        '; rounds 7-9: forms prefix, lrucache, declared, nowraps; four-node graphs (aimed family + seeded sample) in the quick tier; aimed pinned-callee hidden edges and builtin-named functions in random programs; functions bound by partial'
        '; rounds 10-11: four-node graphs with the root in one package and the others in another (xpkg4)'
        '; round 13: memento functions behind object-style decorators, a four-package program under six hash seeds, a global that answers every attribute'
        '; round 14: hidden callees that have a namesake among the names the caller mentions (two modules, four spellings)'
        '; round 15: the hidden call made with the caller behind five chains of modifiers'
        '; round 16: a hidden call back to a function that is running further up the stack')
ASSUMPTIONS = ["builtins mentioned in a body show up as undefined-symbol rules without hash contribution; the oracle "
               "ignores non-memento rules", "a function never counts as its own dependency"]
TIMEOUT = 900


def cases(tier, seed):
    forms = ["bare", "attr", "alias", "wrapped", "pkginit", "initroot", "chain", "pinned", "lambda", "factory", "xdeco", "nestedlocal", "prefix", "lrucache", "declared", "nowraps", "xpkg", "objdeco"]
    for form in forms:
        edges = all_edges(3, form)
        graphs = [(kinds, mask) for kinds in itertools.product(["memento", "plain"], repeat=2)
                  for mask in range(1 << len(edges))]
        if tier == "quick" and form in ("lambda", "factory", "xdeco", "nestedlocal", "prefix", "lrucache", "declared", "nowraps", "xpkg", "objdeco"):  # quick: these forms without self-loops
            loops = sum(1 << i for i, (u, v) in enumerate(edges) if u == v)
            graphs = [(kinds, mask) for kinds, mask in graphs if not mask & loops]
        if form == "xpkg":
            # (the root lives in one package, the others in another one: a plain function of another package is not a
            # helper of the root, so the root names memento functions only)
            graphs = [(kinds, mask) for kinds, mask in graphs
                      if not any(mask >> i & 1 and u == 0 and kinds[v - 1] == "plain" for i, (u, v) in enumerate(edges))]
        for i in range(0, len(graphs), 64):
            yield {"kind": "small", "n": 3, "form": form, "graphs": graphs[i:i + 64]}
    edges = all_edges(4, "bare4")
    if tier == "thorough":
        graphs = [(kinds, mask) for kinds in itertools.product(["memento", "plain"], repeat=3)
                  for mask in range(1 << len(edges))]
        for form in ("bare4", "declared4"):
            for i in range(0, len(graphs), 128):
                yield {"kind": "small", "n": 4, "form": form, "graphs": graphs[i:i + 128]}
    else:
        # quick: four nodes as a seeded sample, plus the family "a plain helper shared by the root and by a memento
        # function beneath it, with a memento function behind the helper" (the helper is met twice, on two levels)
        rng = core.rng_for(seed, ID, "four")
        bit = {e: 1 << i for i, e in enumerate(edges)}
        base = bit[(0, 1)] | bit[(1, 2)] | bit[(2, 3)] | bit[(0, 2)]
        aimed = [(("memento", "plain", "memento"), base | sum(bit[e] for e in extra))
                 for k in range(4) for extra in itertools.combinations([(0, 3), (1, 3), (3, 1)], k)]
        aimed += [(("memento", "plain", "plain"), base), (("plain", "plain", "memento"), base),
                  (("memento", "memento", "plain"), bit[(0, 1)] | bit[(1, 3)] | bit[(0, 3)] | bit[(3, 2)] | bit[(0, 2)])]
        for form in ("bare4", "declared4"):
            graphs = aimed + [(tuple(rng.choice(["memento", "plain"]) for _ in range(3)), rng.randrange(1 << len(edges)))
                              for _ in range(117)]
            for i in range(0, len(graphs), 64):
                yield {"kind": "small", "n": 4, "form": form, "graphs": graphs[i:i + 64]}
        # four nodes with the root in one package and the others in another: a memento function of the other package
        # reaches a further one through a plain helper of its own package (the root names memento functions only,
        # nobody names the root)
        chain = bit[(0, 1)] | bit[(1, 2)] | bit[(2, 3)]
        xg = [(("memento", "plain", "memento"), chain | sum(bit[e] for e in extra))
              for k in range(4) for extra in itertools.combinations([(0, 3), (1, 3), (3, 1)], k)]
        xg += [(kinds, mask) for kinds, mask in ((tuple(rng.choice(["memento", "plain"]) for _ in range(3)), rng.randrange(1 << len(edges)))
                                                 for _ in range(400))
               if not any(mask >> i & 1 and (v == 0 or (u == 0 and kinds[v - 1] == "plain")) for i, (u, v) in enumerate(edges))][:56]
        yield {"kind": "small", "n": 4, "form": "xpkg4", "graphs": xg}
    for i in range(160 if tier == "quick" else 5000):
        yield {"kind": "random", "seed": seed, "idx": i}
    for i in range(12 if tier == "quick" else 60):
        yield {"kind": "fnarg", "seed": seed, "idx": i}
    yield {"kind": "multi", "hashseeds": 6 if tier == "quick" else 16}
    yield {"kind": "proxy"}
    for i in range(8):
        yield {"kind": "namesake", "idx": i}


def all_edges(n, form):
    if form in ("attr", "pkginit", "initroot", "xpkg"):  # root lives in module b, the others in module a (which cannot name the root)
        # (pkginit: root in sub-module b, the others in the package's __init__.py; initroot: the other way round)
        return [(u, v) for u in range(n) for v in range(n) if not (u > 0 and v == 0)]
    if form in ("bare4", "declared4", "xpkg4"):
        return [(u, v) for u in range(n) for v in range(n) if u != v]
    return [(u, v) for u in range(n) for v in range(n)]


# ---------------------------------------------------------------- (A) small reference graphs
def render_small(pkg, n, kinds, edges, form):
    """Returns {module: text}. Node 0 is the root memento function."""
    kinds = ["memento"] + list(kinds)
    mod_of = (lambda u: "b" if (form == "attr" and u == 0) else "a")
    if form == "xpkg":  # the root in module b of the package, the others in module a of another package
        mod_of = lambda u: "b" if u == 0 else "x:a"
    if form == "pkginit":
        mod_of = lambda u: "b" if u == 0 else "__init__"
    elif form == "initroot":
        mod_of = lambda u: "__init__" if u == 0 else "a"
    std = ["import functools", "import twosigma.memento as m", "from vf.recorder import REC", "from vf.twin import box"]
    texts = {"a": std + [""], "b": std + ["import %s.a as a" % pkg, ""], "__init__": []}
    if form == "xpkg":
        texts["x:a"] = std + [""]
        texts["b"] = std + ["import %s_x.a as a" % pkg, ""]
    if form == "pkginit":
        texts["__init__"] = std + [""]
        texts["b"] = std + ["from %s import %s" % (pkg, ", ".join("n%d" % u for u in range(1, n))), ""]
    elif form == "initroot":
        texts["__init__"] = std + [""]
    aliases = {"a": [], "b": [], "__init__": [], "x:a": []}
    if form == "xdeco":  # every function is wrapped by a decorator that lives in another module of the package
        texts["u"] = ["import functools", "", "def deco(fn):", "    @functools.wraps(fn)", "    def wrapper(*args, **kw):",
                      "        return fn(*args, **kw)", "    return wrapper"]
        texts["a"].insert(0, "from %s.u import deco" % pkg)
    for u in (range(n - 1, -1, -1) if form == "declared" else range(n)):
        L = texts[mod_of(u)]
        plain_as = form if (kinds[u] != "memento" and form in ("lambda", "factory")) else None
        if kinds[u] == "memento" and form == "objdeco" and u > 0:
            # every memento function but the root sits behind a decorator that is an object (a class with __call__ that
            # records what it wraps the way functools.update_wrapper does)
            L += ["class Wrap_n%d:" % u, "    def __init__(self, fn):", "        functools.update_wrapper(self, fn)", "        self.fn = fn",
                  "    def __call__(self, *args, **kw):", "        return self.fn(*args, **kw)", "", "@Wrap_n%d" % u]
        if kinds[u] == "memento":
            # (form 'pinned': every memento function but the root declares its version explicitly)
            deco = "(version=\"p%d\")" % u if form == "pinned" and u > 0 else ""
            if form == "declared":
                # the functions are defined last to first, and every memento function also declares the memento functions
                # it names that exist by then (declared dependencies are collected before the detected ones)
                decl = sorted({t for (s_, t) in edges if s_ == u and t > u and kinds[t] == "memento"})
                deco = "(dependencies=[%s])" % ", ".join("n%d" % t for t in decl) if decl else ""
            L.append("@m.memento_function" + deco)
        elif form in ("wrapped", "nowraps"):  # (nowraps: the decorator's wrapper does not say what it wraps)
            L += ["def deco_n%d(fn):" % u] + (["    @functools.wraps(fn)"] if form == "wrapped" else []) + ["    def wrapper(*args, **kw):",
                  "        return fn(*args, **kw)", "    return wrapper", "", "@deco_n%d" % u]
        if form == "xdeco":
            L.append("@deco")
        if form == "lrucache" and kinds[u] != "memento":  # the plain helpers are wrapped by the standard library's cache
            L.append("@functools.lru_cache(maxsize=None)")
        if plain_as == "lambda":  # the plain helper is a lambda bound to a module-level name
            targets = [t for (s_, t) in edges if s_ == u]
            L += ["n%d = lambda x: ((%s) if x < -1000 else x)" % (u, ", ".join("n%d(x)" % t for t in targets) + ("," if targets else "None,")), ""]
            continue
        ind = ""
        if plain_as == "factory":  # the plain helper is made by a factory function
            L += ["def make_n%d():" % u]
            ind = "    "
        L += [ind + "def n%d(x):" % u, ind + "    REC.hit('n%d', x)" % u, ind + "    if x < -1000:"]
        refs = []
        for (s, t) in edges:
            if s != u:
                continue
            if form in ("attr", "xpkg") and mod_of(u) == "b" and mod_of(t) in ("a", "x:a"):
                refs.append("a.n%d(x)" % t)
            elif form == "alias":
                aliases[mod_of(u)].append("al_%d_%d = n%d" % (u, t, t))
                refs.append("al_%d_%d(x)" % (u, t))
            elif form == "chain":  # named only in the argument list of a call whose result is used through attributes
                refs.append("box(n%d(x)).plus(n%d(x)).v" % (t, t))
            else:
                refs.append("n%d(x)" % t)
        L += [ind + "        " + r for r in refs] or [ind + "        pass"]
        if form == "nestedlocal":
            # the functions this one does NOT refer to lend their names to locals of nested scopes (an inner function's
            # variables, a lambda's parameter, a comprehension's variable)
            non = ["n%d" % t for t in range(n) if (u, t) not in edges]
            if non:
                L += [ind + "    def inner_(y):"] + [ind + "        %s = y" % nm for nm in non] + [ind + "        return " + non[0],
                      ind + "    x = inner_(x)", ind + "    x = (lambda %s: %s)(x)" % (non[-1], non[-1]),
                      ind + "    x = [%s for %s in [x]][0]" % (non[0], non[0])]
        L += [ind + "    return x", ""]
        if plain_as == "factory":
            L += ["    return n%d" % u, "", "n%d = make_n%d()" % (u, u), ""]
    for mod in ("a", "b"):
        texts[mod] += aliases[mod]
    if form == "initroot":  # the package imports its sub-module after defining the root
        texts["__init__"] += ["from %s.a import %s" % (pkg, ", ".join("n%d" % u for u in range(1, n)))]
    out = {k: ("\n".join(v) + "\n" if v else "") for k, v in texts.items()}
    if form == "prefix":  # every function's name is the beginning of the next one's: n0, n0x, n0xy, ...
        import re

        for u in range(n - 1, 0, -1):
            out = {k: re.sub(r"\bn%d\b" % u, PREFIX_NAMES[u], v) for k, v in out.items()}
    return out


PREFIX_NAMES = ["n0", "n0x", "n0xy", "n0xyz"]


def oracle_small(n, kinds, edges):
    kinds = ["memento"] + list(kinds)
    adj = collections.defaultdict(set)
    for u, v in edges:
        adj[u].add(v)

    def reach(u, through_memento=True):
        seen, stack = set(), list(adj[u])
        while stack:
            v = stack.pop()
            if v in seen:
                continue
            seen.add(v)
            if through_memento or kinds[v] != "memento":
                stack += list(adj[v])
        return seen

    out = {}
    for u in range(n):
        if kinds[u] != "memento":
            continue
        out["n%d" % u] = {
            "transitive": sorted("n%d" % v for v in reach(u) if kinds[v] == "memento" and v != u),
            "direct": sorted("n%d" % v for v in adj[u] if kinds[v] == "memento" and v != u),
            "first": sorted("n%d" % v for v in reach(u, False) if kinds[v] == "memento" and v != u)}
    return out


def observe(fn):
    """What the code under test reports for one memento function."""
    short = lambda f: f.qualified_name_without_version.split(":")[-1]
    dg = fn.dependencies()
    res = {"transitive": sorted(short(f) for f in dg.transitive_memento_fn_dependencies()),
           "direct": sorted(short(f) for f in dg.direct_memento_fn_dependencies())}
    df = dg.df()
    edges = set()
    for _, row in df.iterrows():
        if row["type"] == "MementoFunction":
            edges.add((row["src"].split(":")[-1], row["target"].split(":")[-1]))
    res["df_edges"] = sorted(list(e) for e in edges)
    return res


def small_child(arg):
    pkg = arg["pkg"]
    d = os.path.join(arg["root"], pkg)
    os.makedirs(d)
    for mod, text in arg["texts"].items():
        if mod.startswith("x:"):  # a module of a second package
            dx = os.path.join(arg["root"], pkg + "_x")
            os.makedirs(dx, exist_ok=True)
            open(os.path.join(dx, "__init__.py"), "a").close()
            with open(os.path.join(dx, mod[2:] + ".py"), "w") as f:
                f.write(text)
            continue
        with open(os.path.join(d, mod + ".py"), "w") as f:
            f.write(text)
    sys.path.insert(0, arg["root"])
    env.set_env(os.path.join(arg["root"], "env"), default_storage=env.mem_backend())
    a = importlib.import_module(pkg + ".a")
    b = importlib.import_module(pkg + ".b")
    out = {}
    real = {("n%d" % u): PREFIX_NAMES[u] for u in range(4)} if arg.get("form") == "prefix" else {}
    back = {v: k for k, v in real.items()}
    unmap = lambda o: {k: (sorted(back.get(x, x) for x in v) if k != "df_edges" else sorted([back.get(e[0], e[0]), back.get(e[1], e[1])] for e in v))
                       for k, v in o.items()}
    for name in arg["names"]:
        attr = real.get(name, name)
        fn = (getattr(b, attr, None) or getattr(a, attr, None) or getattr(sys.modules.get(pkg + "_x.a"), attr, None)
              or getattr(sys.modules[pkg], attr))
        fn = getattr(fn, "__wrapped__", fn) if not hasattr(fn, "dependencies") else fn  # (behind an object-style decorator)
        out[name] = unmap(observe(fn))
        if name == "n0":  # the same questions asked of a modifier clone of the root
            out["n0 (modifier clone)"] = unmap(observe(fn.force_local()))
    return out


def run_small(case, out, fail):
    n, form = case["n"], case["form"]
    edges_all = all_edges(n, form)
    with env.Scratch() as sc:
        for gi, (kinds, mask) in enumerate(case["graphs"]):
            edges = [e for i, e in enumerate(edges_all) if mask >> i & 1]
            want = oracle_small(n, kinds, edges)
            pkg = "vg%d_%s_%d" % (n, form, gi)
            texts = render_small(pkg, n, kinds, edges, {"bare4": "bare", "declared4": "declared", "xpkg4": "xpkg"}.get(form, form))
            try:
                got = procs.in_child(small_child, {"pkg": pkg, "root": sc.path("g%d" % gi), "texts": texts,
                                                   "names": sorted(want), "form": form})
            except procs.ChildFailed as e:
                fail("computing dependencies of a reference graph raises", "kinds %s edges %s form %s: %s" % (kinds, edges, form, str(e)[-600:]))
                continue
            out["obs"]["graphs"] += 1
            label = "graph n=%d kinds %s edges %s form %s" % (n, ["memento"] + list(kinds), edges, form)
            for name, w in list(want.items()) + [("n0 (modifier clone)", want["n0"])]:
                g = got[name]
                out["obs"]["functions_compared"] += 1
                if g["transitive"] != w["transitive"]:
                    fail("transitive memento dependencies differ from reachability in the reference graph",
                         "%s: %s reports %s, reachable %s" % (label, name, g["transitive"], w["transitive"]))
                if g["direct"] != w["direct"]:
                    fail("direct memento dependencies differ from those named in the body",
                         "%s: %s reports %s, named %s" % (label, name, g["direct"], w["direct"]))
            # graph edges, from the root: every memento function reachable from it contributes its first-level links
            root_reach = ["n0"] + want["n0"]["transitive"]
            want_edges = sorted([u, v] for u in root_reach for v in want[u]["first"])
            for who in ("n0", "n0 (modifier clone)"):
                if got[who]["df_edges"] != want_edges:
                    fail("dependency graph edges differ from 'reaches without passing through another memento function'",
                         "%s: df() of %s has %s, expected %s" % (label, who, got[who]["df_edges"], want_edges))
            if any(set(w["transitive"]) - set(w["direct"]) for w in want.values()):
                out["nontrivial"].append("%s/%s/%s/%d" % (n, form, "".join(k[0] for k in kinds), mask))
        out["sample"] = {"n": n, "form": form, "module_a": texts["a"].split("\n")[4:20]}


# ---------------------------------------------------------------- (B) random programs
def static_closure(prog, i):
    seen, stack = set(), [t for t in progs.callees(prog, i, include_hidden=False)]
    while stack:
        j = stack.pop()
        if j not in seen:
            seen.add(j)
            stack += progs.callees(prog, j, include_hidden=False)
    return seen


def simulate_calls(prog, root):
    """Does calling `root` raise the undeclared-dependency error? (executed calls, body order)"""
    nodes = prog["nodes"]

    class Undeclared(Exception):
        pass

    memo = {}

    def run(i, frame):
        nd = nodes[i]
        calls = list(nd["calls"])
        if nd["nested"] and nd["nested"]["call"] is not None:
            calls.append({"t": nd["nested"]["call"], "form": nd["nested"].get("form", "bare")})
        if nd.get("cbdefault") is not None:
            calls.append({"t": nd["cbdefault"], "form": "default value"})
        for c in calls:
            t = c["t"]
            if nodes[t]["kind"] == "memento":
                caller = nodes[frame]
                if caller["version"] is None and t != frame and t not in static_closure(prog, frame):
                    raise Undeclared()
                key = t
                if key not in memo:
                    try:
                        run(t, t)
                        memo[key] = None
                    except Undeclared as e:
                        memo[key] = e
                if memo[key] is not None:
                    raise memo[key]
            else:
                run(t, frame)

    try:
        run(root, root)
        return False
    except Undeclared:
        return True


def random_child(arg):
    from twosigma.memento.exception import UndeclaredDependencyError

    prog = arg["prog"]
    progs.write_package(prog, arg["root"])
    sys.path.insert(0, arg["root"])
    env.set_env(os.path.join(arg["root"], "env"), default_storage=env.mem_backend())
    importlib.import_module(prog["pkg"] + ".a")
    importlib.import_module(prog["pkg"] + ".b")
    out = {}
    for i in progs.roots(prog):
        nd = prog["nodes"][i]
        fn = getattr(sys.modules[progs.modname(prog, nd["mod"])], nd["name"])
        o = observe(fn)
        try:
            fn(1)
            o["call"] = "ok"
        except UndeclaredDependencyError:
            o["call"] = "undeclared"
        except Exception as e:
            o["call"] = "raise:%s:%s" % (type(e).__name__, str(e)[:200])
        out[nd["name"]] = o
    # once more, callees first and with the argument their callers will pass (x + 1) before the callers' own: what a
    # caller asks for is memoized already when it runs, and must be refused all the same if it is outside the closure
    for x in (3, 2):
        for i in reversed(progs.roots(prog)):
            nd = prog["nodes"][i]
            fn = getattr(sys.modules[progs.modname(prog, nd["mod"])], nd["name"])
            try:
                fn(x)
                r = "ok"
            except UndeclaredDependencyError:
                r = "undeclared"
            except Exception as e:
                r = "raise:%s:%s" % (type(e).__name__, str(e)[:200])
            if x == 2:
                out[nd["name"]]["call_memoized_callees"] = r
    return out


def run_random(case, out, fail):
    rng = core.rng_for(case["seed"], ID, case["idx"])
    prog = progs.gen_program(rng, "vp14_%d_%d" % (case["seed"], case["idx"]), p_explicit=0.25 if case["idx"] % 3 == 0 else 0.1, p_hidden=0.5,
                             p_init=0.2 if case["idx"] % 2 else 0.4, p_ext=0.2, p_guard=0)
    if case["idx"] % 4 == 1:
        # a memento function is the default value of a parameter of another one of its module, which calls it through
        # that parameter: named in the function's header, so part of its closure
        nodes = prog["nodes"]
        cands = [(u, t) for u in range(len(nodes)) for t in range(u + 1, len(nodes))
                 if nodes[u]["kind"] == "memento" and nodes[t]["kind"] == "memento" and nodes[u]["mod"] == nodes[t]["mod"]]
        if cands:
            u, t = rng.choice(cands)
            nodes[u]["cbdefault"] = t
            out["obs"]["programs_with_a_function_as_default_value"] += 1
    if case["idx"] % 4 == 3:
        # aimed: a function of the program that is called by its bare name goes by the name of a builtin (a memento
        # function, or a plain helper in front of one)
        nodes = prog["nodes"]
        free = [b for b in progs.BUILTIN_NAMES if not any(nd["name"] == b for nd in nodes)]
        cands = [t for t in range(1, len(nodes)) if nodes[t]["kind"] in ("memento", "plain") and nodes[t]["mod"] in ("a", "b")
                 and nodes[t]["name"] not in progs.BUILTIN_NAMES and not nodes[t].get("prev")
                 and (nodes[t]["kind"] == "memento" or any(nodes[j]["kind"] == "memento" for j in progs.reaches(prog, t, include_hidden=False)))
                 and not any(al["target"] == t for al in prog["aliases"])]
        if free and cands:
            t = rng.choice(cands)
            old_name, nodes[t]["name"] = nodes[t]["name"], rng.choice(free)
            for nd in nodes:
                if nd["nested"] and nd["nested"].get("param") == old_name:
                    nd["nested"]["param"] = nodes[t]["name"]
            users = [u for u in range(t) if nodes[u]["kind"] == "memento" and nodes[u]["mod"] == nodes[t]["mod"]]
            if users and not any(c["t"] == t and c["form"] == "bare" for u in users for c in nodes[u]["calls"]):
                nodes[rng.choice(users)]["calls"].append({"t": t, "form": "bare"})
            out["obs"]["programs_with_a_builtin_named_function_called_by_bare_name"] += 1
    if case["idx"] % 5 == 2:
        # aimed: R (automatic version) calls V (explicit version), V reaches X through a hidden call (allowed: V is
        # pinned), and only afterwards R itself takes a hidden edge to X, which is outside R's static closure
        nodes = prog["nodes"]
        trip = [(r, v, x) for r in range(len(nodes)) for v in range(r + 1, len(nodes)) for x in range(v + 1, len(nodes))
                if all(nodes[i]["kind"] == "memento" and nodes[i]["mod"] == nodes[r]["mod"] for i in (r, v, x))
                and nodes[r]["version"] is None]
        rng.shuffle(trip)
        for r, v, x in trip:
            saved = [copy.deepcopy(nodes[i]) for i in (r, v)]
            if nodes[v]["version"] is None:
                nodes[v]["version"] = "pin"
            nodes[v]["calls"].append({"t": x, "form": "hidden"})
            nodes[r]["calls"] = [c for c in nodes[r]["calls"] if c["t"] != x] + [{"t": v, "form": "bare"}, {"t": x, "form": "hidden"}]
            if x in static_closure(prog, r):
                nodes[r], nodes[v] = saved
                continue
            out["obs"]["programs_with_a_hidden_edge_after_a_pinned_callee_reached_the_target"] += 1
            break
    with env.Scratch() as sc:
        try:
            got = procs.in_child(random_child, {"prog": prog, "root": sc.path("p")})
        except procs.ChildFailed as e:
            return fail("computing dependencies of a generated program raises", str(e)[-800:])
        nodes = prog["nodes"]
        text = progs.render_all(prog)
        for i in progs.roots(prog):
            nd = nodes[i]
            g = got[nd["name"]]
            clo = static_closure(prog, i)
            want_t = sorted(nodes[j]["name"] for j in clo if nodes[j]["kind"] == "memento" and j != i)
            want_d = sorted({nodes[j]["name"] for j in progs.callees(prog, i, include_hidden=False)
                             if nodes[j]["kind"] == "memento" and j != i})
            out["obs"]["functions_compared"] += 1
            if g["transitive"] != want_t:
                fail("transitive memento dependencies differ from reachability in the reference graph",
                     "program %d/%d %s: reports %s, reachable %s\n%s" % (case["seed"], case["idx"], nd["name"], g["transitive"], want_t, text))
            if g["direct"] != want_d:
                fail("direct memento dependencies differ from those named in the body",
                     "program %d/%d %s: reports %s, named %s\n%s" % (case["seed"], case["idx"], nd["name"], g["direct"], want_d, text))
            # graph edges from this function: each memento function it reaches links to those it reaches without
            # passing through another memento function
            def first(u):
                seen, stack = set(), list(progs.callees(prog, u, include_hidden=False))
                while stack:
                    v = stack.pop()
                    if v not in seen:
                        seen.add(v)
                        if nodes[v]["kind"] != "memento":
                            stack += progs.callees(prog, v, include_hidden=False)
                return {v for v in seen if nodes[v]["kind"] == "memento" and v != u}
            want_e = sorted([nodes[u]["name"], nodes[v]["name"]]
                            for u in [i] + [j for j in clo if nodes[j]["kind"] == "memento" and j != i] for v in first(u))
            out["obs"]["graph_edge_sets_compared"] += 1
            if g["df_edges"] != want_e:
                fail("dependency graph edges differ from 'reaches without passing through another memento function'",
                     "program %d/%d %s: df() has %s, expected %s\n%s" % (case["seed"], case["idx"], nd["name"], g["df_edges"], want_e, text))
            want_call = "undeclared" if simulate_calls(prog, i) else "ok"
            out["obs"]["calls_judged"] += 1
            out["obs"]["calls_expected_" + want_call] += 1
            if g["call"] != want_call:
                fail("a call outside the static closure is not refused" if want_call == "undeclared"
                     else "a call inside the static closure (or from an explicitly versioned caller) is refused or fails",
                     "program %d/%d %s(1): outcome %s, expected %s\n%s" % (case["seed"], case["idx"], nd["name"], g["call"], want_call, text))
            out["obs"]["calls_judged_with_memoized_callees"] += 1
            if g["call_memoized_callees"] != want_call:
                fail("a call outside the static closure is not refused when the callee's result is memoized already" if want_call == "undeclared"
                     else "a call inside the static closure (or from an explicitly versioned caller) is refused or fails",
                     "program %d/%d %s(2) after every function had been called with 3: outcome %s, expected %s\n%s" % (
                         case["seed"], case["idx"], nd["name"], g["call_memoized_callees"], want_call, text))
        if any(c["form"] == "hidden" for nd in nodes for c in nd["calls"]):
            out["nontrivial"].append("random:%d:%d" % (case["seed"], case["idx"]))
        out["sample"] = {"program": text.split("\n")[:30]}


# ---------------------------------------------------------------- (C) functions passed as arguments
FNARG_MOD = '''import twosigma.memento as m
from vf.recorder import REC

@m.memento_function
def outside(x):
    REC.hit("outside", x)
    return x + 100

@m.memento_function
def inside(x):
    REC.hit("inside", x)
    return x + 1

@m.memento_function
def relay(x):
    # (a dynamic call back to the function that is running further up the stack: nothing in this text names it)
    if x > 0:
        return globals()["to" + "p"](x - 1)
    return 0

@m.memento_function
def top(x):
    return relay(x) + 1

@m.memento_function
def caller(x, fns=None):
    REC.hit("caller", x)
    r = inside(x)
    if fns is None:
        return r + globals()["out" + "side"](x)
    %(pick)s
    return r + g(x)
'''


def fnarg_child(arg):
    from twosigma.memento.exception import UndeclaredDependencyError

    os.makedirs(arg["root"])
    with open(os.path.join(arg["root"], arg["mod"] + ".py"), "w") as f:
        f.write(FNARG_MOD % {"pick": arg["pick"]})
    sys.path.insert(0, arg["root"])
    env.set_env(os.path.join(arg["root"], "env"), default_storage=env.mem_backend())
    mod = importlib.import_module(arg["mod"])
    res = {}
    try:
        mod.caller(1)
        res["not_passed"] = "ok"
    except UndeclaredDependencyError:
        res["not_passed"] = "undeclared"
    wrap = {"bare": lambda f: f, "list": lambda f: [f], "dict": lambda f: {"k": f}, "nested": lambda f: {"k": [1, [f]]}}[arg["how"]]
    try:
        if arg.get("via") == "partial_kw":  # handed over when the function is partially applied, by keyword / by position
            res["passed"] = mod.caller.partial(fns=wrap(mod.outside))(2)
        elif arg.get("via") == "partial_pos":
            res["passed"] = mod.caller.partial(2, wrap(mod.outside))()
        else:
            res["passed"] = mod.caller(2, wrap(mod.outside))
    except Exception as e:
        res["passed"] = "raise:%s:%s" % (type(e).__name__, str(e)[:200])
    try:
        mod.caller(3)
        res["not_passed_afterwards"] = "ok"
    except UndeclaredDependencyError:
        res["not_passed_afterwards"] = "undeclared"
    # the same hidden call with the caller invoked through one modifier, and through chains of modifiers
    chains = {"force_local": lambda f: f.force_local(), "partial+force_local": lambda f: f.partial().force_local(),
              "force_local+ignore_result(False)": lambda f: f.force_local().ignore_result(False),
              "context+force_local+partial": lambda f: f.with_context_args({"k": 1}).force_local().partial(),
              "monitor+force_local": lambda f: f.monitor_progress(False).force_local() if hasattr(f, "monitor_progress") else f.force_local().force_local()}
    res["chained"] = {}
    for k, (name, mk) in enumerate(sorted(chains.items())):
        try:
            mk(mod.caller)(10 + k)
            res["chained"][name] = "ok"
        except UndeclaredDependencyError:
            res["chained"][name] = "undeclared"
        except Exception as e:
            res["chained"][name] = "raise:%s:%s" % (type(e).__name__, str(e)[:120])
    try:
        res["reentrant"] = "ok:%r" % (mod.top(1),)
    except UndeclaredDependencyError:
        res["reentrant"] = "undeclared"
    except Exception as e:
        res["reentrant"] = "raise:%s:%s" % (type(e).__name__, str(e)[:120])
    res["closure"] = sorted(f.qualified_name_without_version.split(":")[-1]
                            for f in mod.caller.dependencies().transitive_memento_fn_dependencies())
    return res


def run_fnarg(case, out, fail):
    how = ["bare", "list", "dict", "nested"][case["idx"] % 4]
    pick = {"bare": "g = fns", "list": "g = fns[0]", "dict": "g = fns[\"k\"]", "nested": "g = fns[\"k\"][1][0]"}[how]
    with env.Scratch() as sc:
        via = ["call", "partial_kw", "partial_pos"][(case["idx"] // 4) % 3]
        res = procs.in_child(fnarg_child, {"root": sc.path("f"), "mod": "vfn_%d" % case["idx"], "how": how, "pick": pick, "via": via})
        how = how + " / " + via
        out["obs"]["function_argument_scenarios"] += 1
        if res["closure"] != ["inside"]:
            fail("transitive memento dependencies differ from reachability in the reference graph", "fnarg module: %s" % res["closure"])
        if res["not_passed"] != "undeclared":
            fail("a call outside the static closure is not refused", "hidden call to a function that was not passed: %s" % res["not_passed"])
        if res["not_passed_afterwards"] != "undeclared":
            fail("a call outside the static closure is not refused",
                 "hidden call to a function that had been passed as an argument (%s) to an EARLIER call: %s" % (how, res["not_passed_afterwards"]))
        out["obs"]["calls_expected_undeclared"] += 1
        if res["reentrant"] != "undeclared":
            fail("a call outside the static closure is not refused",
                 "hidden call back to a function that is running further up the stack (top -> relay -> top): %s" % res["reentrant"])
        for name, got in sorted(res["chained"].items()):
            out["obs"]["calls_expected_undeclared"] += 1
            out["obs"]["hidden_calls_with_the_caller_behind_modifiers"] += 1
            if got != "undeclared":
                fail("a call outside the static closure is not refused",
                     "hidden call to a function that was not passed, caller invoked through %s: %s" % (name, got))
        if res["passed"] != 2 + 1 + 2 + 100:
            fail("a memento function passed as an argument (%s) cannot be called" % how, "outcome %s" % (res["passed"],))
        out["nontrivial"].append("fnarg:" + how)
        out["sample"] = {"how": how, "result": res}


# ---------------------------------------------------------------- (D) several packages, one function reached on two paths
MULTI = {
    "q0/rootmod.py": "from twosigma.memento import memento_function\nfrom q1.amod import fa\nfrom q2.mmod import fm\n\n"
                     "@memento_function\ndef root():\n    return fa() + fm()\n",
    "q1/amod.py": "from twosigma.memento import memento_function\nfrom q2.mmod import fm\n\n@memento_function\ndef fa():\n    return fm()\n",
    "q1/helpers.py": "from twosigma.memento import memento_function\n\n@memento_function\ndef leaf():\n    return 1\n\n"
                     "def h1():\n    return leaf()\n",
    "q2/mmod.py": "from twosigma.memento import memento_function\nfrom q3.xmod import fx\n\n@memento_function\ndef fm():\n    return fx()\n",
    "q3/xmod.py": "from twosigma.memento import memento_function\nfrom q1.helpers import h1\n\n@memento_function\ndef fx():\n    return h1()\n",
}
MULTI_CHILD = """import json, sys, os
sys.path.insert(0, sys.argv[1])
from vf import env
env.set_env(os.path.join(sys.argv[1], "env"), default_storage=env.mem_backend())
from q0.rootmod import root
from q3.xmod import fx
short = lambda f: f.qualified_name_without_version
out = {}
for name, fn in (("root", root), ("fx", fx)):
    g = fn.dependencies()
    out[name] = {"transitive": sorted(short(f) for f in g.transitive_memento_fn_dependencies()), "version": fn.version()}
print("VFRESULT " + json.dumps(out))
"""


def run_multi(case, out, fail):
    """root (package q0) reaches fm (q2) directly and through fa (q1); fm -> fx (q3) -> plain helper of q1 -> leaf (q1).
    The plain helper belongs to another package than the function that names it (fx): leaf is in nobody's closure,
    whatever path the walk takes first (the order follows the hash seed)."""
    with env.Scratch() as sc:
        root = sc.path("m")
        for rel, text in MULTI.items():
            os.makedirs(os.path.dirname(os.path.join(root, rel)), exist_ok=True)
            open(os.path.join(root, os.path.dirname(rel), "__init__.py"), "a").close()
            with open(os.path.join(root, rel), "w") as f:
                f.write(text)
        script = sc.path("child.py")
        with open(script, "w") as f:
            f.write(MULTI_CHILD)
        seen = {}
        for hs in range(case["hashseeds"]):
            rc, so, se = procs.run_python(script, [root], hashseed=hs)
            line = next((l for l in so.split("\n") if l.startswith("VFRESULT ")), None)
            if rc != 0 or line is None:
                fail("computing dependencies of a generated program raises", "several packages, hash seed %d: %s" % (hs, se[-600:]))
                continue
            seen[hs] = json.loads(line[len("VFRESULT "):])
            out["obs"]["multi_package_interpreters"] += 1
        want = {"root": ["q1.amod:fa", "q2.mmod:fm", "q3.xmod:fx"], "fx": []}
        for hs, res in sorted(seen.items()):
            for name in ("root", "fx"):
                out["obs"]["functions_compared"] += 1
                if res[name]["transitive"] != want[name]:
                    fail("transitive memento dependencies differ from reachability in the reference graph",
                         "several packages (root q0 -> fa q1 -> fm q2 -> fx q3 -> plain helper of q1 -> leaf; root -> fm), hash seed %d: "
                         "%s reports %s, expected %s" % (hs, name, res[name]["transitive"], want[name]))
        if len({json.dumps(v, sort_keys=True) for v in seen.values()}) > 1:
            fail("reported dependencies or versions of an unchanged program differ between hash seeds",
                 "several packages: %s" % {hs: (v["root"]["transitive"], v["root"]["version"]) for hs, v in sorted(seen.items())})
        out["nontrivial"].append("multi_package")


PROXY_MOD = """import twosigma.memento as m

class Proxy:
    # answers every attribute (a remote-object stub, a mock)
    def __getattr__(self, name):
        return Proxy()

    def __call__(self, *args, **kw):
        return 0

SERVER = Proxy()

@m.memento_function
def n1(x):
    return x

@m.memento_function
def n0(x):
    if x < -1000:
        SERVER.lookup(x)
    return n1(x)
"""


def proxy_child(arg):
    d = os.path.join(arg["root"], "vproxy")
    os.makedirs(d)
    open(os.path.join(d, "__init__.py"), "w").close()
    with open(os.path.join(d, "a.py"), "w") as f:
        f.write(PROXY_MOD)
    sys.path.insert(0, arg["root"])
    env.set_env(os.path.join(arg["root"], "env"), default_storage=env.mem_backend())
    a = importlib.import_module("vproxy.a")
    return observe(a.n0)


def run_proxy(case, out, fail):
    """A function mentions a global that answers every attribute: its dependencies are still computed (in finite time)."""
    with env.Scratch() as sc:
        try:
            got = procs.in_child(proxy_child, {"root": sc.path("p")}, timeout=120)
        except procs.ChildFailed as e:
            return fail("computing dependencies of a reference graph " + ("does not end" if e.kind == "timeout" else "raises"),
                        "a function that mentions a global answering every attribute: %s" % str(e)[-300:])
        out["obs"]["functions_compared"] += 1
        if got["transitive"] != ["n1"] or got["direct"] != ["n1"]:
            fail("transitive memento dependencies differ from reachability in the reference graph",
                 "a function that mentions a global answering every attribute: reports %s" % got)


# ---------------------------------------------------------------- (F) a hidden callee that has a namesake in the closure
NAMESAKE = {
    "store_a.py": "import twosigma.memento as m\n\n@m.memento_function\ndef load(x):\n    return x + 1\n\n"
                  "@m.memento_function\ndef fetch(x):\n    return x + 2\n\nsettings = 5\n",
    "store_b.py": "import twosigma.memento as m\n\n@m.memento_function\ndef load(x):\n    return x + 10\n\n"
                  "@m.memento_function\ndef fetch(x):\n    return x + 20\n\n@m.memento_function\ndef settings(x):\n    return x + 30\n",
    "__init__.py": "",
}
NAMESAKE_MAIN = """import sys
import twosigma.memento as m
%(imp)s

@m.memento_function
def report(which, x):
    r = %(use)s
    if which:
        # (a dynamic call to a function of the other module: nothing in this text names it)
        r += getattr(sys.modules[__name__.rsplit(".", 1)[0] + ".store_" + "b"], which)(x)
    return r
"""
NAMESAKE_FORMS = [
    # (import statements, expression that names functions of store_a, names it mentions)
    ("from %(pkg)s import store_a", "store_a.load(x)", ["load"]),
    ("from %(pkg)s.store_a import load", "load(x)", ["load"]),
    ("import %(pkg)s.store_a as sa", "sa.load(x) + sa.settings", ["load", "settings"]),
    ("from %(pkg)s.store_a import load as fetch", "fetch(x)", ["fetch"]),
]


def namesake_child(arg):
    from twosigma.memento.exception import UndeclaredDependencyError

    d = os.path.join(arg["root"], arg["pkg"])
    os.makedirs(d)
    for name, text in NAMESAKE.items():
        with open(os.path.join(d, name), "w") as f:
            f.write(text)
    with open(os.path.join(d, "main.py"), "w") as f:
        f.write(NAMESAKE_MAIN % {"imp": arg["imp"] % {"pkg": arg["pkg"]}, "use": arg["use"]})
    sys.path.insert(0, arg["root"])
    env.set_env(os.path.join(arg["root"], "env"), default_storage=env.mem_backend())
    importlib.import_module(arg["pkg"] + ".store_b")  # (loaded by someone else: the main module does not name it)
    main = importlib.import_module(arg["pkg"] + ".main")
    res = {"closure": sorted(f.qualified_name_without_version.split(".")[-1]
                             for f in main.report.dependencies().transitive_memento_fn_dependencies()), "calls": {}}
    order = ["load", "fetch", "settings"] if arg["first_hidden"] else [None, "load", "fetch", "settings"]
    for k, which in enumerate(order + [None]):
        try:
            res["calls"]["%d:%s" % (k, which)] = ["ret", main.report(which, k)]
        except UndeclaredDependencyError:
            res["calls"]["%d:%s" % (k, which)] = ["undeclared"]
        except Exception as e:
            res["calls"]["%d:%s" % (k, which)] = ["raise", type(e).__name__, str(e)[:200]]
    return res


def run_namesake(case, out, fail):
    """The calling function names functions of one module; the hidden callee lives in another module and has the bare
    name of something the caller mentions (or not): it is outside the closure either way."""
    imp, use, mentioned = NAMESAKE_FORMS[case["idx"] % 4]
    with env.Scratch() as sc:
        res = procs.in_child(namesake_child, {"root": sc.path("n"), "pkg": "vns_%d" % case["idx"], "imp": imp, "use": use,
                                             "first_hidden": case["idx"] >= 4})
        out["obs"]["functions_compared"] += 1
        out["obs"]["namesake_scenarios"] += 1
        if res["closure"] != ["store_a:load"]:
            fail("transitive memento dependencies differ from reachability in the reference graph",
                 "namesake program (%s): closure reported %s" % (use, res["closure"]))
        for k, got in sorted(res["calls"].items()):
            which = k.split(":")[1]
            if which == "None":
                out["obs"]["calls_expected_ok"] += 1
                if got[0] != "ret":
                    fail("a call inside the static closure is refused", "namesake program (%s): report(None, ..) -> %s" % (use, got))
                continue
            out["obs"]["calls_expected_undeclared"] += 1
            if which in mentioned:
                out["obs"]["hidden_calls_to_a_namesake_of_a_mentioned_name"] += 1
            if got[0] != "undeclared":
                fail("a call outside the static closure is not refused",
                     "namesake program (caller mentions %s through %r): hidden call to store_b.%s -> %s" % (mentioned, use, which, got))
        out["nontrivial"].append("namesake:%d" % case["idx"])


def run_case(case):
    out = {"viol": [], "nontrivial": [], "obs": collections.Counter()}

    def fail(sig, msg):
        if len(out["viol"]) < 6:
            out["viol"].append({"sig": sig, "msg": msg})

    {"small": run_small, "random": run_random, "fnarg": run_fnarg, "multi": run_multi, "proxy": run_proxy, "namesake": run_namesake}[case["kind"]](case, out, fail)
    out["obs"] = dict(out["obs"])
    return out


def conclude(agg):
    return core.first(core.need(agg, "graphs", 6000), core.need(agg, "functions_compared", 3000),
                      core.need(agg, "calls_expected_undeclared", 8), core.need(agg, "calls_expected_ok", 100),
                      core.need(agg, "function_argument_scenarios", 4)), {"exhaustive": True}
