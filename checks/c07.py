"""C07 — result blobs are content-addressed, deduplicated and immutable once referenced.

Monitor: after every step of a storage history a separate, cache-less backend instance on the
same root re-reads every live memento and re-hashes the bytes behind its content key.
Oracle: shadow table memento -> sha256(bytes at creation), hash/key agreement, one stored
version per content hash."""
import collections
import hashlib
import json
import os

from vf import core, domain, env, storeops

ID = "C07"
LEVEL = "exploration"
RULE = ("the C05 storage histories (with key-override writes to shared keys, None and partition results "
        "under override keys) on filesystem back-ends {no cache, 4 KiB cache, 1 MiB cache + separate "
        "metadata path}; after EVERY step every live memento is re-read through a separate cache-less "
        "backend: bytes behind c/<h> must hash to <h>, bytes must equal those recorded when the memento "
        "was created, equal bytes must share one versioned object; non-trivial = histories in which a live "
        "memento survived an overwrite of its shared override key or a forget of another call, or two "
        "functions stored identical bytes"
        '; rounds 7-9: earlier mementos re-read through the writing backend, partitions with entries inherited from a merge parent'
        '; round 12: two writers under one override key under schedule control (one preemption at every yield point of the storage code)'
        '; round 14: a partition staged on disk whose values are stored already'
        '; round 15: mementos in the caller\'s hands read for forgotten calls as well; whatever an earlier memento reads is a value that call stored'
        '; round 16: a recorded failure whose message is not ASCII')
ASSUMPTIONS = [
    "a memento stops being 'live' when its own call is re-memoized or forgotten (the property speaks of "
    "changes made for other calls)",
    "the file-level scan of c/.versions decides only while the store uses that layout",
]
TIMEOUT = 300
CONFIGS = ["fs", "fs+4KiB", "fs+1MiB+meta"]


def cases(tier, seed):
    if tier in ("thorough",):
        yield {"kind": "repo_tests"}
    for i in range(40 if tier == "quick" else 1500):
        # writers forked from one process that had already opened the store (pre-forked workers)
        yield {"kind": "forked_writers", "seed": seed, "idx": i, "config": CONFIGS[i % 3]}
    for config in ("fs", "fs+1MiB"):
        # two writers in one process, interleaved at every yield point of the storage code
        yield {"kind": "two_writers", "config": config}
    n, length = (300, 25) if tier == "quick" else (10000, 40)
    for i in range(n):
        # every fourth history contains writes that a kernel-level file size limit cuts short (the caller sees an
        # I/O error): whatever they leave behind, everything *published* must stay intact
        yield {"seed": seed, "idx": i, "length": length, "config": CONFIGS[i % 3], "faulty": i % 4 == 3}


def open_backend(sc, config, cache=True):
    if config == "fs":
        return env.fs_backend(sc.path("d"))
    if config == "fs+4KiB":
        return env.fs_backend(sc.path("d"), cache_mb=(4 * env.KIB if cache else None))
    return env.fs_backend(sc.path("d"), cache_mb=(1 if cache else None), metadata_path=sc.path("m"))


def content_bytes(plain, memento):
    if memento.content_key is None:
        return None
    with plain._data_source.input_versioned(memento.content_key) as f:
        return f.read()


_FW = {}


def forked_writer(arg):
    b, refs, vals = _FW["b"], _FW["refs"], _FW["vals"]
    out = {}
    for op in arg["ops"]:
        got = storeops.apply_backend(b, refs, vals, op)
        if isinstance(got, tuple) and got and got[0] == "raise":
            return {"raise": [op, list(got[1:3])]}
        out["%d,%d" % (op[1], op[2])] = op[3]
    return out


def run_forked_writers(case):
    """One process opens the store, then forks writers (one after the other, no concurrency) that store results
    under shared override keys and as content-addressed blobs; afterwards every memento must read what its own
    writer stored."""
    from vf import procs

    out = {"viol": [], "nontrivial": [], "obs": collections.Counter(), "sets": {"content_hashes": set()}}
    rng = core.rng_for(case["seed"], ID, "fw", case["idx"])
    simple = ["s0", "s1", "num", "k3", "lst", "dct", "flt", "k3b", "true", "arr"]
    with env.Scratch() as sc:
        b = open_backend(sc, case["config"])
        refs, vals = storeops.Refs("c"), storeops.values()
        _FW.update(b=b, refs=refs, vals=vals)
        pre = [["memoize", 2, 2, rng.choice(simple), rng.choice(storeops.OVERRIDES)] for _ in range(rng.randint(0, 2))]
        for op in pre:
            storeops.apply_backend(b, refs, vals, op)
        n = rng.randint(1, 4)
        written = {}
        plans = []
        for w in range(rng.randint(2, 3)):
            plans.append([["memoize", rng.randrange(3), w, rng.choice(simple), rng.choice(storeops.OVERRIDES + ["ovr/shared"])]
                          for _ in range(n)])
        for w, ops in enumerate(plans):
            try:
                res = procs.in_child(forked_writer, {"ops": ops})
            except procs.ChildFailed as e:
                out["viol"].append({"sig": "harness: forked writer failed", "msg": str(e)[-600:]})
                return finish(out)
            if "raise" in res:
                out["viol"].append({"sig": "storage operation raises " + res["raise"][1][0], "msg": "forked writer %d: %s" % (w, res["raise"])})
                return finish(out)
            written.update(res)
            out["obs"]["forked_writers"] += 1
        plain = open_backend(sc, case["config"], cache=False)
        for key, vk in sorted(written.items()):
            f, a = [int(x) for x in key.split(",")]
            out["obs"]["live_mementos_rechecked"] += 1
            out["obs"]["mementos_of_forked_writers_rechecked"] += 1
            try:
                m = plain.get_memento(refs.fwah(f, a))
                value = plain.read_result(m)
            except Exception as e:
                out["viol"].append({"sig": "live memento became unreadable",
                                    "msg": "forked writers %s: memento (%d, %d): %r" % (json.dumps(plans), f, a, e)})
                continue
            if not domain.eq(value, storeops.val(vals, vk)):
                out["viol"].append({"sig": "live memento reads a different value",
                                    "msg": "forked writers %s: memento (%d, %d) expected %s got %s (content key %s)" % (
                                        json.dumps(plans), f, a, vk, domain.describe(value, 60), m.content_key)})
        if any(op[4] for ops in plans for op in ops):
            out["nontrivial"].append("fw:%d:%d" % (case["seed"], case["idx"]))
        out["sample"] = {"config": case["config"], "forked_writers": plans}
    return finish(out)


def finish(out):
    out["obs"] = dict(out["obs"])
    out["sets"] = {k: sorted(v) for k, v in out["sets"].items()}
    out["viol"] = out["viol"][:5]
    return out


def run_two_writers(case):
    """Two threads store different results under one override key, under schedule control (one preemption at every yield
    point of the storage code, each thread starting once): afterwards each writer's memento reads the value that writer
    stored - or that writer saw an error and left nothing published."""
    from checks import c09
    from vf import sched

    out = {"viol": [], "nontrivial": [], "obs": collections.Counter(), "sets": {"content_hashes": set()}}
    c09.ensure_monitor("quick")
    vals = {0: "writer-0-" + "a" * 300, 1: {"writer": 1, "payload": ["b"] * 40}}
    with env.Scratch() as sc:
        def one_run(n, strategy):
            refs = storeops.Refs("c")
            root = sc.path("w%d" % n)
            b = env.fs_backend(root, cache_mb=None if case["config"] == "fs" else 1)
            sched.reset_mutexes()
            ms = [refs.memento(0, 0, vals[0]), refs.memento(1, 1, vals[1])]
            errs = {}

            def body(i):
                def run():
                    try:
                        b.memoize("ovr/shared", ms[i], vals[i])
                    except Exception as e:  # (a writer may be told that its write failed)
                        errs[i] = e
                return run

            s_ = sched.Sched(strategy)
            s_.run([body(0), body(1)])
            if s_.inconclusive or s_.deadlock:
                return s_, None
            plain = env.fs_backend(root)
            bad = []
            for i in (0, 1):
                if i in errs:
                    continue
                m = plain.get_memento(refs.fwah(i, i))
                if m is None:
                    bad.append(("a writer that saw no error left no memento", "writer %d" % i))
                    continue
                try:
                    got = plain.read_result(m)
                except Exception as e:
                    bad.append(("live memento became unreadable", "writer %d: %r" % (i, e)))
                    continue
                if not domain.eq(got, vals[i]):
                    bad.append(("a memento reads bytes other than those stored when it was created",
                                "writer %d stored %s, its memento reads %s" % (i, domain.describe(vals[i], 40), domain.describe(got, 40))))
            return s_, bad

        n = 0
        for first in (0, 1):
            base, _ = one_run(n, sched.PreemptAt({}, first))
            n += 1
            total = base.step
            out["obs"]["yield_points_in_unpreempted_run"] += total
            for k in range(1, total + 1):
                s_, bad = one_run(n, sched.PreemptAt({k: ("other", 0)}, first))
                n += 1
                out["obs"]["two_writer_schedules"] += 1
                if bad is None:
                    out["obs"]["watchdog_firings"] += 1
                    continue
                if any(t[3] == "preempt" for t in s_.trace):
                    out["nontrivial"].append("two_writers/%s/%d/%d" % (case["config"], first, k))
                for sig, msg in bad:
                    if len(out["viol"]) < 6:
                        out["viol"].append({"sig": sig, "msg": "two writers under one override key, config %s, thread %d starts, preempted at yield "
                                                               "point %d: %s" % (case["config"], first, k, msg)})
    out["obs"] = dict(out["obs"])
    out["sets"] = {k: sorted(v) for k, v in out["sets"].items()}
    return out


def run_case(case):
    if case.get("kind") == "two_writers":
        return run_two_writers(case)
    if case.get("kind") == "forked_writers":
        return run_forked_writers(case)
    if case.get("kind") == "repo_tests":
        from vf import repotests

        return repotests.as_case_result(repotests.run_suite_with_monitors(), "C07", "content_keys_rehashed")
    out = {"viol": [], "nontrivial": [], "obs": collections.Counter(), "sets": {"content_hashes": set()}}
    rng = core.rng_for(case["seed"], ID, case["idx"])
    ovr_heavy = rng.random() < 0.5
    ops = storeops.gen_history(rng, case["length"])
    if ovr_heavy:  # aim at shared override keys
        for op in ops:
            if op[0] == "memoize" and rng.random() < 0.6:
                op[4] = "ovr/shared"
    with env.Scratch() as sc:
        refs, vals = storeops.Refs("c"), storeops.values()
        b = open_backend(sc, case["config"])
        plain = open_backend(sc, case["config"], cache=False)
        model = storeops.Model()
        live = {}  # (f, a) -> (memento read at creation through the cache-less backend, sha, bytes, valkey)
        earlier = {}  # (f, a) -> (memento, valkey) of the write before the latest one (content-addressed results only)
        interesting = False

        def fail(sig, msg, step):
            out["viol"].append({"sig": sig, "msg": "%s; config %s step %d; history %s"
                                % (msg, case["config"], step, json.dumps(ops[: step + 1]))})

        faulty = bool(case.get("faulty"))
        frng = core.rng_for(case["seed"], ID, case["idx"], "faults")
        for step, op in enumerate(ops):
            before = dict(model.d)
            limit = None
            failed_write = False
            if faulty and op[0] == "memoize" and frng.random() < 0.35:
                limit = frng.choice([0, 7, 60, 300, 1500, 4000])
            if limit is not None:
                import resource
                import signal

                signal.signal(signal.SIGXFSZ, signal.SIG_IGN)
                soft, hard = resource.getrlimit(resource.RLIMIT_FSIZE)
                resource.setrlimit(resource.RLIMIT_FSIZE, (limit, hard))
                try:
                    got = storeops.apply_backend(b, refs, vals, op, model_before=before)
                finally:
                    resource.setrlimit(resource.RLIMIT_FSIZE, (soft, hard))
                out["obs"]["writes_under_a_file_size_limit"] += 1
                if isinstance(got, tuple) and got and got[0] == "raise":
                    out["obs"]["writes_cut_short"] += 1
                    if got[1] not in ("OSError", "IOError"):
                        fail("storage operation raises " + got[1], "op %s under a %d byte file size limit raised %s" % (op, limit, got[2:]), step)
                        break
                    # the call's entry is now either the old one or the new one: stop tracking it; everything else
                    # must be as before (the memory cache may hold what the failed write put there: drop it)
                    key = (op[1], op[2])
                    live.pop(key, None)
                    model.d.pop(key, None)
                    try:
                        b.forget_call(refs.fwah(*key))
                        plain.forget_call(refs.fwah(*key))
                    except Exception as e:
                        fail("storage operation raises " + type(e).__name__, "forget after a failed write of %s: %r" % (op, e), step)
                        break
                    got = None
                    failed_write = True
                else:
                    model.apply(op)
            else:
                model.apply(op)
                got = storeops.apply_backend(b, refs, vals, op, model_before=before)
            if isinstance(got, tuple) and got and got[0] == "raise" and got[1] == "StaleMementoRead":
                fail("a memento reads other bytes than those stored when it was created", "op %s: %s" % (op, got[2]), step)
                break
            if isinstance(got, tuple) and got and got[0] == "raise":
                fail("storage operation raises " + got[1], "op %s raised %s" % (op, got[2:]), step)
                break
            # maintain the shadow table
            for key in list(live):
                if key not in model.d:
                    del live[key]
            for key in list(earlier):
                if key not in model.d or key not in live:
                    del earlier[key]
            if op[0] == "memoize" and not failed_write:
                key = (op[1], op[2])
                m = plain.get_memento(refs.fwah(*key))
                if m is None:
                    fail("memoized call has no memento", "after %s" % op, step)
                    break
                try:
                    data = content_bytes(plain, m)
                except Exception as e:
                    fail("content key of a new memento names no stored object",
                         "after %s: content key %s: %r" % (op, m.content_key, e), step)
                    break
                sha = hashlib.sha256(data).hexdigest() if data is not None else None
                if key in live and live[key][0].content_key is not None and live[key][0].content_key.key.startswith("c/"):
                    earlier[key] = (live[key][0], live[key][3])
                else:
                    earlier.pop(key, None)
                live[key] = (m, sha, data, op[3])
                if any(k != key and v[0].content_key is not None and m.content_key is not None
                       and v[0].content_key.key == m.content_key.key and v[3] != op[3] for k, v in live.items()):
                    interesting = True  # another live memento shares this (override) key with other content
                if sum(1 for v in live.values() if v[1] == sha and sha is not None) > 1:
                    interesting = True  # deduplication exercised
            elif op[0].startswith("forget") and live:
                interesting = True
            # the invariant, over the whole live set
            seen_hash = {}
            for key, (m, sha, data, vk) in live.items():
                out["obs"]["live_mementos_rechecked"] += 1
                try:
                    now = content_bytes(plain, m)
                    value = plain.read_result(m)
                except Exception as e:
                    fail("live memento became unreadable", "memento %s (value %s): %r" % (key, vk, e), step)
                    continue
                if now != data:
                    fail("bytes behind a live memento changed",
                         "memento %s (value %s, content key %s) now reads %d bytes, had %d"
                         % (key, vk, m.content_key, len(now or b""), len(data or b"")), step)
                if not domain.eq(value, storeops.val(vals, vk)):
                    fail("live memento reads a different value",
                         "memento %s expected %s got %s" % (key, vk, domain.describe(value, 60)), step)
                ck = m.content_key
                if ck is not None and ck.key.startswith("c/"):
                    out["obs"]["content_keys_rehashed"] += 1
                    out["sets"]["content_hashes"].add(sha)
                    if ck.key != "c/" + sha:
                        fail("bytes under a content key do not hash to that key",
                             "key %s but sha256 %s" % (ck.key, sha), step)
                    if sha in seen_hash and seen_hash[sha] != ck:
                        fail("identical bytes stored under two versioned objects",
                             "%s vs %s" % (seen_hash[sha], ck), step)
                    seen_hash[sha] = ck
                    if not plain._data_source.exists_versioned(ck):
                        fail("content key of a live memento does not exist", str(ck), step)
            # a memento of the write before the latest one still reads its own bytes - also through the backend that wrote
            # both (its memory cache and weak references are keyed by call, not by content)
            for key, (m_old, vk_old) in earlier.items():
                out["obs"]["earlier_mementos_reread_through_the_writing_backend"] += 1
                try:
                    value = b.read_result(m_old)
                except Exception as e:
                    fail("live memento became unreadable", "memento of the earlier write of %s (value %s) through the writing backend: %r"
                         % (key, vk_old, e), step)
                    continue
                if not domain.eq(value, storeops.val(vals, vk_old)):
                    fail("a memento of an earlier write reads another value through the backend that wrote it",
                         "memento of the earlier write of %s expected %s got %s" % (key, vk_old, domain.describe(value, 60)), step)
            # secondary, layout-dependent: one version directory per content hash
            vdir = os.path.join(sc.path("d"), "c", ".versions")
            if os.path.isdir(vdir):
                count = collections.Counter()
                published = None
                if faulty:  # a write that was cut short leaves an unpublished object behind: only linked ones count
                    published = set()
                    cdir = os.path.join(sc.path("d"), "c")
                    for ln in os.listdir(cdir):
                        if ln.endswith(".link"):
                            with open(os.path.join(cdir, ln)) as lf:
                                published.add(os.path.realpath(lf.read().strip()))
                for v in os.listdir(vdir):
                    for h in os.listdir(os.path.join(vdir, v)):
                        if published is not None and os.path.realpath(os.path.join(vdir, v, h)) not in published:
                            continue
                        if ".meta." not in h:
                            count[h] += 1
                            out["obs"]["stored_objects_scanned"] += 1
                            with open(os.path.join(vdir, v, h), "rb") as f:
                                if hashlib.sha256(f.read()).hexdigest() != h:
                                    fail("bytes under a content key do not hash to that key",
                                         "file %s/%s" % (v, h), step)
                dup = [h for h, n in count.items() if n > 1]
                if dup:
                    fail("identical bytes stored under two versioned objects", "hash %s has %d versions"
                         % (dup[0], count[dup[0]]), step)
            if out["viol"]:
                break
        if interesting:
            out["nontrivial"].append("%d:%d" % (case["seed"], case["idx"]))
        out["sample"] = {"config": case["config"], "ops": ops[:10]}
    out["obs"] = dict(out["obs"])
    out["sets"] = {k: sorted(v) for k, v in out["sets"].items()}
    out["viol"] = out["viol"][:5]
    return out


def conclude(agg):
    return core.first(core.need(agg, "live_mementos_rechecked", 2000), core.need(agg, "writes_cut_short", 50), core.need(agg, "mementos_of_forked_writers_rechecked", 60),
                      core.need(agg, "content_keys_rehashed", 1000),
                      core.need(agg, "stored_objects_scanned", 1000)), {}
