"""C02 — memoization is transparent: same outcome, body runs once per distinct call.

Monitors: the opaque recorder (body executions), type-aware equality of every returned value,
class and message of replayed exceptions, recorded result type, behaviour of forget."""
import collections

from vf import core, domain, env, models

ID = "C02"
LEVEL = "exploration"
RULE = ("seeded result values from the documented domain (None, bool, int, float incl. NaN/inf/-0.0, str, "
        "bytes, date, naive/aware datetime, nested lists / string-keyed dicts, 1-d numpy arrays of the 7 "
        "dtypes, pandas Index/Series/DataFrame incl. empty, InMemory and OnDisk partitions) and exception "
        "outcomes (builtin, importable custom, nested-qualified, two-argument, constructor-rejecting, "
        "function-local, not-to-be-memoized classes) x back-ends {filesystem, filesystem + 4 KiB / 64 KiB / "
        "16 MiB cache, memory} x modifiers {normal, ignore_result, force_local}; each (value, backend, "
        "modifier) is a fresh store on which the call is made 3 times, the first value is re-used "
        "afterwards, the memento's result type is compared, the call is forgotten and made again; "
        "distinct_nontrivial = distinct (result type | exception class, backend, modifier) combinations "
        "for which a later call was observed to be served without running the body"
        '; around forget, a call of another argument that produced an equal result / failed identically must still be served'
        '; rounds 7-9: equal-comparing values of different types inside partitions, arrays of dimension 0 / 2 / 3, Fortran-ordered, strided and with an empty axis'
        '; rounds 10-11: pandas timestamps, exception classes that share their name with a class of another module'
        '; round 14: strings with CR / CRLF / NEL / LS / FF / BOM'
        '; round 16: every third value is followed by forget_cluster and two more calls'
        '; round 17: a function that finishes, in place, the list / dictionary a nested call returned and hands on the same object')
ASSUMPTIONS = ["numpy scalars, timedelta, tuples and non-string dict keys are outside the stated result domain",
               "an exception class counts as rebuildable iff calling it with one string argument succeeds",
               "values are never mutated by the harness (the memory backend hands back the identical object)"]
TIMEOUT = 600
BACKENDS = ["fs", "fs+4KiB", "fs+64KiB", "fs+16MiB", "memory"]
MODS = ["normal", "ignore_result", "force_local"]


def cases(tier, seed):
    n = 70 if tier == "quick" else 1700
    for i in range(n):
        yield {"seed": seed, "idx": i, "nvalues": 6}


def make_backend(sc, name, tag):
    if name == "memory":
        return env.mem_backend()
    mb = {"fs": None, "fs+4KiB": 4 * env.KIB, "fs+64KiB": 64 * env.KIB, "fs+16MiB": 16}[name]
    return env.fs_backend(sc.path("s" + tag), cache_mb=mb)


def gen_partition_spec(rng):
    keys = rng.sample(["a", "b", "key one", "é", "k/1", "z" * 20, "0", "index.json"], rng.randint(0, 4))
    return {"kind": rng.choice(["mem", "disk"]), "keys": keys, "seed": rng.randrange(1 << 30)}


def build_partition(spec):
    from twosigma.memento.partition import InMemoryPartition
    from twosigma.memento.storage_filesystem import OnDiskPartition

    r = core.rng_for("part", spec["seed"])
    d = {k: domain.gen_result(r, 1) for k in spec["keys"]}
    if spec["seed"] % 3 == 0:
        # values that compare equal but are different values (a number as integer, float and boolean, both zeros, a
        # datetime and a pandas Timestamp of the same instant) under different keys of one partition
        import datetime as _dt

        import pandas as pd

        d.update({"t int": 1, "t float": 1.0, "t bool": True, "t zero": 0.0, "t negative zero": -0.0,
                  "t datetime": _dt.datetime(2020, 5, 17, 10, 30), "t timestamp": pd.Timestamp("2020-05-17 10:30:00")})
    if spec["keys"] and r.random() < 0.25:  # a partition nested inside a partition
        inner = {"kind": r.choice(["mem", "disk"]), "keys": ["in1", "in 2"], "seed": spec["seed"] + 1}
        d[spec["keys"][0]] = build_partition(inner)
    if spec["kind"] == "mem":
        return InMemoryPartition(d)
    p = OnDiskPartition()
    for k, v in d.items():
        p[k] = v
    return p


def value_factory(seed, idx, j):
    """Deterministic factory: every call builds an equal but distinct object."""
    def make():
        r = core.rng_for(seed, ID, idx, j)
        if r.random() < 0.15:
            return build_partition(gen_partition_spec(r))
        return domain.gen_result(r, 2)
    return make


def exception_specs():
    from vf import ffuncs, ffuncs_other

    return [
        ("ValueError", ValueError, ("bad value é",)), ("KeyError", KeyError, ("missing",)),
        ("RuntimeError", RuntimeError, ("rt: a:b::c",)), ("OSError", OSError, ("disk gone",)),
        ("ZeroDivisionError", ZeroDivisionError, ("division by zero",)),
        ("CustomError", ffuncs.CustomError, ("custom msg",)), ("CustomOptional", ffuncs.CustomOptional, ("opt", 9)),
        ("Nested", ffuncs.Outer.Nested, ("nested msg",)), ("TwoArgs", ffuncs.TwoArgs, ("x", "y")),
        ("Picky", ffuncs.Picky, (42,)), ("Local", ffuncs.local_class(), ("local msg",)),
        ("UnicodeDecodeError", UnicodeDecodeError, ("utf-8", b"\xff", 0, 1, "bad byte")),
        ("Transient", ffuncs.Transient, ("try later",)),
        ("AssertionError", AssertionError, ()), ("ValueError2", ValueError, ("a", "b")),
        # classes that share their name with a class of another module: a failure of the namesake is recorded and
        # replayed in the same process first (see check_exception)
        ("CustomError@other", ffuncs_other.CustomError, ("other custom msg",)),
        ("ValueError@other", ffuncs_other.ValueError, ("other value msg",)),
    ]


def rebuildable(cls):
    import importlib

    try:  # the class must be found again by module and qualified name ...
        ref = importlib.import_module(cls.__module__)
        for part in cls.__qualname__.split("."):
            ref = getattr(ref, part)
        if ref is not cls:
            return False
    except (ImportError, AttributeError):
        return False
    try:  # ... and accept the message as its only argument
        cls("probe. Original stack trace follows:\n...")
        return True
    except Exception:
        return False


def call(fn, mod, cid):
    f = fn if mod == "normal" else (fn.ignore_result() if mod == "ignore_result" else fn.force_local())
    try:
        return ("ret", f(cid))
    except Exception as e:  # noqa
        return ("raise", e)


def run_case(case):
    from twosigma.memento.exception import MementoException, NonMemoizedException
    from twosigma.memento.metadata import ResultType
    from vf import ffuncs
    from vf.recorder import REC

    out = {"viol": [], "nontrivial": [], "obs": collections.Counter(), "sets": {"result_types": set(), "exception_kinds": set()}}
    rng = core.rng_for(case["seed"], ID, case["idx"], "pick")
    specs = exception_specs()
    items = [("v%d" % j, "value", value_factory(case["seed"], case["idx"], j)) for j in range(case["nvalues"])]
    for name, cls, args in rng.sample(specs, 2):
        items.append(("e" + name, "exc", (cls, args)))
    produce = ffuncs.produce

    def fail(sig, msg):
        if len(out["viol"]) < 12:
            out["viol"].append({"sig": sig, "msg": msg})

    with env.Scratch() as sc:
        n = 0
        for bname in BACKENDS:
            for mod in MODS:
                for cid, kind, spec in items:
                    n += 1
                    st = make_backend(sc, bname, str(n))
                    env.set_env(sc.path("env"), default_storage=st)
                    label = "%s/%s/%s" % (bname, mod, cid)
                    if kind == "value":
                        ffuncs.TABLE[cid] = spec
                        expected = spec()
                        check_value(out, fail, produce, mod, cid, expected, label, st, bname, REC, ResultType)
                    else:
                        cls, args = spec
                        ffuncs.TABLE[cid] = ("__raise__", cls, args)
                        check_exception(out, fail, produce, mod, cid, cls, args, label, st, bname, REC,
                                        MementoException, NonMemoizedException)
        out["sample"] = {"values": [domain.describe(spec(), 80) for cid, kind, spec in items if kind == "value"][:3],
                         "exceptions": [cid for cid, kind, _ in items if kind == "exc"]}
    out["obs"] = dict(out["obs"])
    out["sets"] = {k: sorted(v) for k, v in out["sets"].items()}
    return out


def check_value(out, fail, produce, mod, cid, expected, label, st, bname, REC, ResultType):
    rt = models.spec_result_type(expected)
    desc = domain.describe(expected, 120)
    mark = REC.mark()
    first = call(produce, mod, cid)
    ran = len(REC.since(mark))
    out["obs"]["first_calls"] += 1
    if first[0] == "raise":
        return fail("call of a supported value raises " + type(first[1]).__name__,
                    "%s value %s: first call raised %r" % (label, desc, first[1]))
    if ran != 1:
        fail("body did not run exactly once on the first call", "%s ran %d times" % (label, ran))
    want_first = None if mod == "ignore_result" else expected
    same, err = domain.eq_safe(first[1], want_first)
    if err:
        same = True  # judged below, where the reuse of the first value is the monitored event
        fail("value handed back by the first call is no longer usable after memoization",
             "%s value %s: using it raises %s" % (label, desc, err))
    if not same:
        fail("first call returns a value different from what the body returned",
             "%s value %s: got %s" % (label, desc, domain.describe(first[1], 120)))
    for k in range(2):
        mark = REC.mark()
        # the second look always asks for the value, so that ignore_result is followed by a real read
        later = call(produce, "normal" if (mod == "ignore_result" or k == 1) else mod, cid)
        ran = len(REC.since(mark))
        out["obs"]["later_calls"] += 1
        if later[0] == "raise":
            fail("later call raises " + type(later[1]).__name__, "%s value %s: %r" % (label, desc, later[1]))
            continue
        if ran != 0:
            fail("body ran again for a memoized call", "%s value %s: later call %d ran the body %d times"
                 % (label, desc, k, ran))
        else:
            out["obs"]["served_without_body"] += 1
            out["nontrivial"].append("%s|%s|%s" % (rt, bname, mod))
        same, err = domain.eq_safe(later[1], expected)
        if err:
            desc += " (using the value raised %s)" % err
        if not same:
            fail("later call returns a value that is not equal / not of the same type",
                 "%s value %s: later call %d got %s" % (label, desc, k, domain.describe(later[1], 120)))
    # the value handed back by the first call must remain equally usable
    if mod != "ignore_result":
        ok, err = domain.eq_safe(first[1], expected)
        if err:
            desc += " (%s)" % err
        out["obs"]["first_value_reuse_checks"] += 1
        if not ok:
            fail("value handed back by the first call is no longer usable after memoization",
                 "%s value %s" % (label, desc))
    # recorded result type matches the value read back
    m = produce.memento(cid)
    if m is None:
        fail("no memento for a memoized call", label)
    else:
        back = st.read_result(m)
        out["obs"]["result_type_checks"] += 1
        out["sets"]["result_types"].add(m.invocation_metadata.result_type.name)
        if m.invocation_metadata.result_type.name != models.spec_result_type(back):
            fail("recorded result type does not match the value read back",
                 "%s: recorded %s, value read back is %s (documented type %s)"
                 % (label, m.invocation_metadata.result_type, domain.describe(back, 80), models.spec_result_type(back)))
    if type(expected) in (list, dict) and bname != "memory" and mod == "normal":
        # a function that finishes, in place, what a nested call returned and hands on the very same object: its own result
        # is the finished value, on the first call and on every later one (also once the memory cache has lost it)
        import copy as _copy

        from vf import ffuncs as _ff

        inner = "inner-" + cid
        _ff.TABLE[inner] = (lambda v=expected: _copy.deepcopy(v))
        want = _copy.deepcopy(expected)
        want.append("finished") if isinstance(want, list) else want.__setitem__("finished", True)
        got1 = call(_ff.decorate, "normal", inner)
        if getattr(st, "_memory_cache", None) is not None:
            st._memory_cache.forget_everything()
        mark = REC.mark()
        got2 = call(_ff.decorate, "normal", inner)
        out["obs"]["nested_results_finished_in_place"] += 1
        for which, g in (("first", got1), ("later", got2)):
            if g[0] != "ret" or not domain.eq_safe(g[1], want)[0]:
                fail("later call returns a value that is not equal / not of the same type",
                     "%s value %s: a function that finishes a nested call's result in place: %s call returned %s, the body returns %s"
                     % (label, desc, which, domain.describe(g[1], 100), domain.describe(want, 100)))
        if REC.since(mark):
            fail("later call ran the body again", "%s: function finishing a nested result in place" % label)
    # forgetting the call makes exactly that call run again
    other = "other-" + cid
    from vf import ffuncs

    ffuncs.TABLE[other] = 123
    produce(other)
    # ... and a call that produces the very same result (stored results are shared by content)
    same = "same-" + cid
    ffuncs.TABLE[same] = ffuncs.TABLE[cid]
    call(produce, "normal", same)
    produce.forget(cid)
    mark = REC.mark()
    same_again = call(produce, "normal", same)
    out["obs"]["forget_checks_with_an_equal_result_elsewhere"] += 1
    if len(REC.since(mark)) != 0 or same_again[0] != "ret" or not domain.eq_safe(same_again[1], expected)[0]:
        fail("forgetting a call lost another call's entry",
             "%s value %s: after forget of this call, a call of another argument that had produced an equal result ran the body %d "
             "times, outcome %s" % (label, desc, len(REC.since(mark)), domain.describe(same_again[1], 80)))
    mark = REC.mark()
    again = call(produce, "normal", cid)
    ran_again = len(REC.since(mark))
    mark = REC.mark()
    produce(other)
    ran_other = len(REC.since(mark))
    mark = REC.mark()
    call(produce, "normal", cid)
    ran_third = len(REC.since(mark))
    out["obs"]["forget_checks"] += 1
    if ran_again != 1 or ran_third != 0 or again[0] != "ret" or not domain.eq_safe(again[1], expected)[0]:
        fail("forgetting a call does not make exactly that call run once again",
             "%s value %s: after forget body ran %d then %d times, outcome %s"
             % (label, desc, ran_again, ran_third, domain.describe(again[1], 80)))
    if ran_other != 0:
        fail("forgetting a call lost another call's entry", label)
    if out["obs"]["forget_checks"] % 3 == 0:
        # everything in the cluster is forgotten: the call (same value as before) runs once more and is served afterwards
        import twosigma.memento as _m

        _m.forget_cluster(produce.fn_reference().cluster_name)
        mark = REC.mark()
        again = call(produce, "normal", cid)
        ran_again = len(REC.since(mark))
        mark = REC.mark()
        third = call(produce, "normal", cid)
        ran_third = len(REC.since(mark))
        out["obs"]["forget_everything_checks"] += 1
        if ran_again != 1 or ran_third != 0 or third[0] != "ret" or not domain.eq_safe(third[1], expected)[0]:
            fail("forgetting a call does not make exactly that call run once again",
                 "%s value %s: after everything in the cluster was forgotten the body ran %d then %d times, outcome %s"
                 % (label, desc, ran_again, ran_third, domain.describe(third[1] if third[0] == "ret" else third, 80)))


def check_exception(out, fail, produce, mod, cid, cls, args, label, st, bname, REC, MementoException,
                    NonMemoizedException):
    if cls.__module__ == "vf.ffuncs_other":
        # the namesake (vf.ffuncs.CustomError / the builtin ValueError) fails, is recorded and replayed first
        from vf import ffuncs as _ff

        namesake = getattr(_ff, cls.__name__, None) or getattr(__import__("builtins"), cls.__name__)
        pre = "namesake-" + cid
        _ff.TABLE[pre] = ("__raise__", namesake, ("namesake msg",))
        for _ in range(2):
            got = call(produce, "normal", pre)
            if got[0] != "raise" or type(got[1]) is not namesake:
                fail("replayed exception has the wrong class", "%s: namesake %s.%s came back as %s"
                     % (label, namesake.__module__, namesake.__name__, domain.describe(got, 100)))
        out["obs"]["exceptions_replayed_after_a_namesake_of_another_module"] += 1
    orig = cls(*args)
    msg = str(orig)
    non_memo = issubclass(cls, NonMemoizedException)
    expect_cls = cls if rebuildable(cls) else MementoException
    kind = "non-memoized" if non_memo else ("rebuilt" if expect_cls is cls else "MementoException")
    out["sets"]["exception_kinds"].add("%s:%s" % (cls.__name__, kind))
    mark = REC.mark()
    first = call(produce, mod, cid)
    out["obs"]["first_calls"] += 1
    if first[0] != "raise" or type(first[1]) is not cls or len(REC.since(mark)) != 1:
        fail("first call does not raise the body's exception",
             "%s: got %s" % (label, domain.describe(first, 120)))
    for k in range(2):
        mark = REC.mark()
        later = call(produce, mod if k == 0 else "normal", cid)
        ran = len(REC.since(mark))
        out["obs"]["later_calls"] += 1
        if non_memo:
            if ran != 1 or later[0] != "raise" or type(later[1]) is not cls:
                fail("an exception marked not-to-be-memoized was recorded",
                     "%s: later call ran the body %d times, outcome %s" % (label, ran, domain.describe(later, 100)))
            elif produce.memento(cid) is not None:
                fail("an exception marked not-to-be-memoized was recorded", "%s: a memento exists" % label)
            continue
        if ran != 0:
            fail("body ran again for a memoized exception", "%s ran %d times" % (label, ran))
        else:
            out["obs"]["served_without_body"] += 1
            out["nontrivial"].append("exc:%s|%s|%s" % (cls.__name__, bname, mod))
        if later[0] != "raise":
            fail("memoized exception is not raised again", "%s returned %s" % (label, domain.describe(later[1], 80)))
            continue
        e = later[1]
        if type(e) is not expect_cls:
            fail("replayed exception has the wrong class" + (
                " (%s escapes while rebuilding %s)" % (type(e).__name__, "a class that cannot be found again"
                                                       if "<locals>" in cls.__qualname__ else
                                                       "a class whose constructor rejects the message")
                if expect_cls is MementoException else ""),
                 "%s: expected %s (rebuildable=%s), got %s: %s" % (label, expect_cls.__name__, expect_cls is cls,
                                                                    type(e).__name__, str(e)[:150]))
        elif (e.message != msg if isinstance(e, MementoException)
              else not (e.args and str(e.args[0]).startswith(msg))):
            fail("replayed exception lost the original message", "%s: original %r, replayed %r" % (label, msg, str(e)[:150]))
    if not non_memo:
        # a call of another argument that fails in exactly the same way (recorded failures are shared by content)
        from vf import ffuncs

        same = "same-" + cid
        ffuncs.TABLE[same] = ffuncs.TABLE[cid]
        call(produce, "normal", same)
        produce.forget(cid)
        for again in range(2):
            mark = REC.mark()
            later = call(produce, "normal", same)
            out["obs"]["forget_checks_with_an_equal_result_elsewhere"] += 1
            if len(REC.since(mark)) != 0 or later[0] != "raise" or type(later[1]) is not expect_cls:
                fail("forgetting a call lost another call's entry",
                     "%s: after forget of this call, call %d of another argument that had failed in the same way ran the body %d "
                     "times, outcome %s" % (label, again, len(REC.since(mark)), domain.describe(later, 100)))
        mark = REC.mark()
        call(produce, "normal", cid)
        out["obs"]["forget_checks"] += 1
        if len(REC.since(mark)) != 1:
            fail("forgetting a call does not make exactly that call run once again", label + " (exception)")


def conclude(agg):
    return core.first(core.need(agg, "served_without_body", 2000), core.need(agg, "forget_checks", 1000),
                      core.need(agg, "result_type_checks", 1000),
                      None if len(agg.sets.get("result_types", ())) >= 15 else "fewer than 15 result types seen"), {}
