"""C01 — memoized results are never stale with respect to code and data changes.

Monitor: the value of every memento function of a generated program after every edit, delivered
across processes (fresh import against the same persistent store) or inside a running process
(re-executed definitions, rebound / mutated variables, module reload).
Oracle: the twin (un-memoized) execution of the *current* edition of the same program text."""
import collections
import copy
import importlib
import json
import linecache
import os
import sys

from vf import core, domain, env, procs, progs

ID = "C01"
LEVEL = "exploration"
RULE = ("generated programs (3-7 functions over two modules of one package: memento functions with automatic or "
        "explicit versions, plain helpers, decorator-wrapped helpers whose wrapper parameter names are drawn from "
        "a pool that includes module aliases and variable names, positional and keyword-only defaults, tuple and "
        "set constants, nested lambdas / comprehensions / inner functions, module variables of 5 supported types "
        "read bare or as module.attr, calls by bare name / module.attr / alias / hidden globals() lookup) x "
        "histories of 3 (quick) or 5 (thorough) edits from 17 edit kinds (explicit versions above an edit are "
        "bumped, as their contract demands) x delivery {cross-process, in-process cell-style, in-process "
        "reload}; after every edit every memento function is called twice with x=1; non-trivial = distinct "
        "(program, step) pairs at which the twin's value of at least one function changed"
        '; round 6: callees-first call order with the arguments callers pass, helpers defined twice (old name kept), tuple/list sequence variables, aimed re-pinning of two explicit versions'
        '; rounds 7-9: failing calls inside / after try blocks, closure-cell factory products, decorators with arguments and decorators without functools.wraps, weighted alias calls with aliases exchanging their targets, set constants of bytes / tuples, string constants inside generator expressions and lambdas of a body, lambda helpers on continuation lines'
        '; rounds 10-11: plain helpers and lambdas as default values, parameter names exchanged under keyword calls, module-level partial clones with an edited bound argument'
        '; round 12: a helper re-executed reading a new variable, then the variable changes'
        '; round 13: a variable read only beneath a memento callee, caller asked first'
        '; round 14: hidden calls through a module-level registry of handlers; eight hand-written programs with imports inside a function body (known finding K2)')
ASSUMPTIONS = ["expected values come from running Python on the same source with memento_function = identity",
               "UndeclaredDependencyError is an accepted outcome (and counted)",
               "hidden dynamic calls target memento functions only; hidden variable reads, helpers in other packages, "
               "functools.partial objects, unsupported variable types and name deletion are outside the property"]
TIMEOUT = 900


def cases(tier, seed):
    n, edits = (120, 3) if tier == "quick" else (1500, 5)
    for i in range(n):
        yield {"seed": seed, "idx": i, "edits": edits, "delivery": "cross"}
        yield {"seed": seed, "idx": i, "edits": edits, "delivery": "cell" if i % 2 else "reload"}
    for i in range(8):
        yield {"kind": "limport", "seed": seed, "idx": i}


# ---------------------------------------------------------------- helpers and variables reached through an import inside the body
LIMPORT_A = """import twosigma.memento as m

@m.memento_function
def f(x):
    %(imp)s
    return [%(h)s(x), %(X)s]
"""
LIMPORT_B = "X = %(x)d\n\ndef h(x):\n    return x + %(k)d\n"
LIMPORT_FORMS = [("from %(pkg)s.b import h, X", "h", "X"), ("import %(pkg)s.b as bb", "bb.h", "bb.X"),
                 ("from . import b", "b.h", "b.X"), ("from .b import h as hh, X as XX", "hh", "XX")]
LIMPORT_SIG = "value computed by an earlier edition is returned: helper / variable reached through an import statement inside the function body"


def limport_child(arg):
    from twosigma.memento.exception import UndeclaredDependencyError

    sys.path.insert(0, arg["src"])
    env.set_env(os.path.join(arg["src"], "env"), default_storage=env.fs_backend(arg["store"]))
    a = importlib.import_module(arg["pkg"] + ".a")
    try:
        return ["ret", a.f(1)]
    except UndeclaredDependencyError:
        return ["undeclared"]


def run_limport(case):
    """f imports a plain helper and a variable of a module of its own package inside its body; the helper / the variable
    is edited between two processes that share a store."""
    out = {"viol": [], "nontrivial": [], "obs": collections.Counter(), "sets": {"features": set()}}
    imp, h, X = LIMPORT_FORMS[case["idx"] % 4]
    what = ["variable", "helper"][(case["idx"] // 4) % 2]
    pkg = "vpl_%d_%d" % (case["seed"], case["idx"])
    editions = [(1, 10), (2, 10) if what == "variable" else (1, 20)]
    with env.Scratch() as sc:
        got = []
        for k, (x, kk) in enumerate(editions):
            d = os.path.join(sc.path("src%d" % k), pkg)
            os.makedirs(d)
            open(os.path.join(d, "__init__.py"), "w").close()
            with open(os.path.join(d, "a.py"), "w") as f:
                f.write(LIMPORT_A % {"imp": imp % {"pkg": pkg}, "h": h, "X": X})
            with open(os.path.join(d, "b.py"), "w") as f:
                f.write(LIMPORT_B % {"x": x, "k": kk})
            got.append(procs.in_child(limport_child, {"src": sc.path("src%d" % k), "pkg": pkg, "store": sc.path("store")}))
            out["obs"]["calls_judged"] += 1
            want = ["ret", [1 + kk, x]]
            if got[-1] != ["undeclared"] and got[-1] != want:
                stale = k and got[-1] == got[0]
                out["viol"].append({"sig": LIMPORT_SIG if stale else "a call returns a value that no edition of the program computes",
                                    "msg": "%s: f reaches b.h and b.X through %r; after the %s was edited f(1) returned %s, an un-memoized "
                                           "execution of the current program gives %s" % (pkg, imp % {"pkg": pkg}, what, got[-1], want)})
        out["sets"]["features"].add("function-local import")
        out["obs"]["programs_with_an_import_inside_a_body"] += 1
        out["nontrivial"].append("limport:%d" % case["idx"])
    out["obs"] = dict(out["obs"])
    out["sets"] = {k: sorted(v) for k, v in out["sets"].items()}
    return out


def build_history(case):
    rng = core.rng_for(case["seed"], ID, case["idx"])
    prog = progs.gen_program(rng, "vp_%d_%d" % (case["seed"], case["idx"]),
                             **({"p_hidden": 0.4} if case["idx"] % 5 == 2 else ({"p_init": 1.0} if case["idx"] % 8 == 6 else {})))
    hist = [(prog, {"kind": "initial"})]
    if case["idx"] % 8 == 6:
        # aimed: the first edit changes a plain helper that lives in the package's __init__.py
        ini = [i for i, nd in enumerate(prog["nodes"]) if nd["mod"] == "i" and nd["kind"] == "plain"]
        if not ini:  # (move a plain helper that names nothing else into __init__.py)
            leaf = [i for i, nd in enumerate(prog["nodes"]) if i >= 2 and nd["mod"] == "a" and nd["kind"] == "plain" and not nd["calls"]
                    and not nd["reads"] and not nd["nested"] and not nd.get("late") and not nd.get("prev") and not nd.get("guard")]
            if leaf:
                prog["nodes"][leaf[-1]]["mod"] = "i"
                ini = [leaf[-1]]
        users = [u for u, nd in enumerate(prog["nodes"]) if ini and u < ini[0] and nd["mod"] in ("a", "b") and nd["kind"] == "memento"]
        if ini and users:  # ... and is used by a memento function of a sub-module
            if not any(c["t"] == ini[0] for c in prog["nodes"][users[-1]]["calls"]):
                prog["nodes"][users[-1]]["calls"].append({"t": ini[0], "form": "pattr"})
            hist = [(prog, {"kind": "initial"})]
        if ini:
            res = progs.apply_edit(rng, prog, rng.choice(["const", "op"]), force_node=ini[0])
            if res is not None:
                prog, desc = res
                desc["silent"] = False
                hist.append((prog, desc))
    if case["idx"] % 4 == 1:
        # aimed: two explicitly versioned callees of one function change together, their version strings "1" / "12"
        # become "11" / "2"
        if progs.resplit_pair(prog) is None:
            nodes = prog["nodes"]
            for u, nd in enumerate(nodes):
                ts = [t for t in range(u + 1, len(nodes)) if nodes[t]["kind"] == "memento" and nodes[t]["mod"] == nd["mod"]]
                if nd["kind"] == "memento" and nd["version"] is None and len(ts) >= 2:
                    for t in ts[:2]:
                        if not any(c["t"] == t and c["form"] == "bare" for c in nd["calls"]):
                            nd["calls"].append({"t": t, "form": "bare"})
                    break
        made = progs.make_resplit(prog)
        if made is not None:
            p0, p1, desc = made
            desc["silent"] = False
            hist = [(p0, {"kind": "initial"}), (p1, desc)]
            prog = p1
    if case["idx"] % 8 == 0:
        # aimed: a function whose two parameters are bound by keyword by a caller has the names of those parameters
        # exchanged (signature and body alike: the instructions stay the same)
        nodes = prog["nodes"]
        cands = [(u, t) for u in range(len(nodes)) for t in range(u + 1, len(nodes))
                 if nodes[u]["kind"] == "memento" and nodes[u]["version"] is None and nodes[t]["kind"] in ("memento", "plain")
                 and nodes[t]["mod"] == nodes[u]["mod"] and nodes[u]["mod"] in ("a", "b") and not nodes[t].get("prev")
                 and nodes[t]["version"] is None and not nodes[t].get("guard")]
        if cands:
            u, t = rng.choice(cands)
            nodes[t]["params"] = [["x", None], ["y", 1]]
            nodes[t]["op"], nodes[t]["swap"] = "*", False
            nodes[u]["calls"].append({"t": t, "form": "kw2"})
            res = progs.apply_edit(rng, prog, "pswap", force_node=t)
            if res is not None:
                p1, desc = res
                desc["silent"] = False
                hist = [(prog, {"kind": "initial"}), (p1, desc)]
                prog = p1
    if case["idx"] % 8 == 4:
        # aimed: a plain helper is the default value of a parameter of a memento function that does not name it anywhere
        # else; the helper's body is edited
        nodes = prog["nodes"]
        cands = [(u, t) for u in range(len(nodes)) for t in range(u + 1, len(nodes))
                 if nodes[u]["kind"] == "memento" and nodes[u]["version"] is None and nodes[u].get("cbdefault") is None
                 and nodes[t]["kind"] == "plain" and nodes[t]["mod"] == nodes[u]["mod"] and nodes[u]["mod"] in ("a", "b")
                 and not nodes[t].get("prev")]
        if cands:
            u, t = rng.choice(cands)
            nodes[u]["calls"] = [c for c in nodes[u]["calls"] if c["t"] != t]
            if nodes[u]["nested"] and nodes[u]["nested"].get("call") == t:
                nodes[u]["nested"] = None
            nodes[u]["cbdefault"] = t
            res = progs.apply_edit(rng, prog, rng.choice(["const", "op"]), force_node=t)
            if res is not None:
                p1, desc = res
                desc["silent"] = False
                hist = [(prog, {"kind": "initial"}), (p1, desc)]
                prog = p1
    if case["idx"] % 8 == 2:
        # aimed: two aliases through which one function calls two different functions exchange their targets
        made = progs.make_alias_swap(rng, prog)
        if made is not None:
            p0, p1, desc = made
            desc["silent"] = False
            hist = [(p0, {"kind": "initial"}), (p1, desc)]
            prog = p1
    if case["idx"] % 4 == 3:
        # aimed: a variable takes the value that another variable read by the same function already holds
        made = progs.make_equal_vars(prog)
        if made is not None:
            p0, p1, desc = made
            desc["silent"] = False
            hist = [(p0, {"kind": "initial"}), (p1, desc)]
            prog = p1
    if case["idx"] % 16 == 13:
        # aimed: a function calls a memento function of its module through a module-level modifier clone that binds the
        # argument (P = g.partial(3)); the bound argument is edited
        nodes = prog["nodes"]
        cands = [(u, t) for u in range(len(nodes)) for t in range(u + 1, len(nodes))
                 if nodes[u]["kind"] == "memento" and nodes[u]["version"] is None and nodes[t]["kind"] == "memento"
                 and nodes[t]["mod"] == nodes[u]["mod"] and nodes[u]["mod"] in ("a", "b") and not nodes[t].get("pswap")]
        if cands:
            prog = copy.deepcopy(prog)
            nodes = prog["nodes"]
            u, t = rng.choice(cands)
            name = "pc_%s" % nodes[t]["name"]
            prog["aliases"].append({"name": name, "mod": nodes[u]["mod"], "target": t, "pclone": 3})
            nodes[u]["calls"].append({"t": t, "form": "palias", "alias": name})
            res = progs.apply_edit(rng, prog, "pclone_arg")
            if res is not None:
                p1, desc = res
                desc["silent"] = False
                hist = [(prog, {"kind": "initial"}), (p1, desc)]
                prog = p1
    if case["idx"] % 16 == 5:
        # aimed (callers are called before their callees here, edits arrive cell by cell): a variable that only a memento
        # function beneath another memento function reads gets another value
        nodes = prog["nodes"]
        pairs = [(u, t) for u in range(len(nodes)) for t in range(u + 1, len(nodes))
                 if nodes[u]["kind"] == "memento" and nodes[u]["version"] is None and nodes[t]["kind"] == "memento"
                 and nodes[t]["version"] is None and nodes[t]["mod"] in ("a", "b")
                 and any(c["t"] == t and c["form"] != "hidden" for c in nodes[u]["calls"])]
        if not pairs:  # no such edge yet: the first memento function gets one to a later memento function of its module
            ms = [i for i, nd in enumerate(nodes) if nd["kind"] == "memento" and nd["version"] is None and nd["mod"] in ("a", "b")]
            same = [(u, t) for u in ms for t in ms if t > u and nodes[t]["mod"] == nodes[u]["mod"]]
            if same:
                u, t = same[0]
                prog = copy.deepcopy(prog)
                nodes = prog["nodes"]
                nodes[u]["calls"].append({"t": t, "form": "bare"})
                pairs = [(u, t)]
        if pairs:
            u, t = rng.choice(pairs)
            p0 = copy.deepcopy(prog)
            p0["vars"].append({"name": "GD", "mod": nodes[t]["mod"], "type": "num", "value": 2})
            vj = len(p0["vars"]) - 1
            p0["nodes"][t]["reads"].append({"v": vj, "form": "bare"})
            p1 = copy.deepcopy(p0)
            p1["vars"][vj]["value"] = 9
            d1 = {"kind": "var_value", "node": None, "var": vj, "bumped": progs.bump_explicit_above(p1, var=vj), "silent": False}
            d1["changed_defs"] = sorted(set(d1["bumped"]))
            hist = [(p0, {"kind": "initial"}), (p1, d1)]
            prog = p1
    if case["idx"] % 16 == 9:
        # aimed: a plain helper is re-executed with a body that reads a variable nothing mentioned before; everything is
        # called; then that variable gets another value
        nodes = prog["nodes"]
        hs = [t for t in range(1, len(nodes)) if nodes[t]["kind"] == "plain" and nodes[t]["mod"] in ("a", "b") and not nodes[t].get("prev")
              and any(any(c["t"] == t for c in progs.all_calls(nd)) for nd in nodes if nd["kind"] == "memento" and nd["version"] is None)]
        if hs:
            t = rng.choice(hs)
            p1 = copy.deepcopy(prog)
            p1["vars"].append({"name": "GN", "mod": nodes[t]["mod"], "type": "num", "value": 3})
            vj = len(p1["vars"]) - 1
            p1["nodes"][t]["reads"].append({"v": vj, "form": "bare"})
            d1 = {"kind": "add_read", "node": t, "var": vj, "changed_defs": [t], "bumped": progs.bump_explicit_above(p1, node=t), "silent": False}
            d1["changed_defs"] = sorted(set(d1["changed_defs"]) | set(d1["bumped"]))
            p2 = copy.deepcopy(p1)
            p2["vars"][vj]["value"] = 8
            d2 = {"kind": "var_value", "node": None, "var": vj, "bumped": progs.bump_explicit_above(p2, var=vj), "silent": False}
            d2["changed_defs"] = sorted(set(d2["bumped"]))
            hist = [(prog, {"kind": "initial"}), (p1, d1), (p2, d2)]
            prog = p2
    for k in range(case["edits"] - (len(hist) - 1)):
        prog, desc = progs.random_edit(rng, prog)
        # now and then several edits arrive before anything is called again
        desc["silent"] = k + 1 < case["edits"] and rng.random() < 0.25
        hist.append((prog, desc))
    return hist


# ---------------------------------------------------------------- calling
def call_all(prog, pkg, rec, twin, rev=False):
    """Calls every memento function twice with x=1, callers first. With rev: callees first, and with x=2 before x=1, so
    that what a caller asks of its callees (x + 1) is memoized already when it runs. Returns
    {name or name@x: [(outcome, bodies run), ...]}."""
    out = {}
    for x in ((2, 1) if rev else (1,)):
        for i in (reversed(progs.roots(prog)) if rev else progs.roots(prog)):
            nd = prog["nodes"][i]
            mod = sys.modules[progs.modname(prog, nd["mod"], twin)]
            fn = getattr(mod, nd["name"])
            res = []
            for _ in range(1 if twin else 2):
                mark = rec.mark()
                try:
                    o = ["ret", fn(x)]
                except Exception as e:
                    # (a replayed failure carries the stored trace after the original message)
                    o = ["raise", type(e).__name__, str(e).split(". Original stack trace")[0][:200]]
                res.append([o, [e[0] for e in rec.since(mark)]])
            out[nd["name"] + ("" if x == 1 else "@%d" % x)] = res
    return out


def versions(prog, pkg):
    out = {}
    for i in progs.roots(prog):
        nd = prog["nodes"][i]
        try:
            out[nd["name"]] = getattr(sys.modules[progs.modname(prog, nd["mod"])], nd["name"]).version()
        except Exception as e:
            out[nd["name"]] = "raise:" + type(e).__name__
    return out


def import_pkg(pkg):
    importlib.invalidate_caches()
    a = importlib.import_module(pkg + ".a")
    b = importlib.import_module(pkg + ".b")
    return a, b


def cross_child(arg):
    from vf.recorder import REC, TWIN_REC

    prog = arg["prog"]
    sys.path.insert(0, arg["src"])
    import_pkg("tw_" + prog["pkg"])
    twin = call_all(prog, "tw_" + prog["pkg"], TWIN_REC, True, arg.get("rev"))
    env.set_env(os.path.join(arg["store"], "env"), default_storage=env.fs_backend(
        os.path.join(arg["store"], "data"), cache_mb=arg.get("cache")))
    import_pkg(prog["pkg"])
    real = call_all(prog, prog["pkg"], REC, False, arg.get("rev"))
    return {"twin": twin, "real": real, "versions": versions(prog, prog["pkg"])}


# ---------------------------------------------------------------- in-process delivery
_cell = [0]


def exec_cell(src, module):
    _cell[0] += 1
    name = "<vf-cell-%d>" % _cell[0]
    linecache.cache[name] = (len(src), None, src.splitlines(True), name)
    exec(compile(src, name, "exec"), module.__dict__)


def deliver_cell(old, new, desc, pkg, twin):
    """Notebook-style delivery of one edit: only what changed is re-executed (progs.cell_statements)."""
    for mod, src, _defines in progs.cell_statements(old, new, desc, twin):
        exec_cell(src, sys.modules[progs.modname(new, mod, twin)])


def deliver_reload(new, root, pkg, twin):
    progs.write_package(new, root, twin=twin)
    importlib.invalidate_caches()
    linecache.checkcache()
    for mod in ("e", "i", "a", "b"):
        name = progs.modname(new, mod, twin)
        if name in sys.modules:
            importlib.reload(sys.modules[name])


def inproc_child(arg):
    from vf.recorder import REC, TWIN_REC

    hist = arg["hist"]
    root = arg["src"]
    prog0 = hist[0][0]
    pkg = prog0["pkg"]
    progs.write_package(prog0, root, twin=False)
    progs.write_package(prog0, root, twin=True)
    sys.path.insert(0, root)
    env.set_env(os.path.join(arg["store"], "env"), default_storage=env.fs_backend(
        os.path.join(arg["store"], "data"), cache_mb=arg.get("cache")))
    import_pkg("tw_" + pkg)
    import_pkg(pkg)
    steps = []
    prev = prog0
    for k, (prog, desc) in enumerate(hist):
        if k > 0:
            for twin in (True, False):
                if arg["delivery"] == "cell":
                    deliver_cell(prev, prog, desc, ("tw_" if twin else "") + pkg, twin)
                else:
                    deliver_reload(prog, root, ("tw_" if twin else "") + pkg, twin)
        prev = prog
        if desc.get("silent"):
            steps.append(None)
            continue
        twin_vals = call_all(prog, "tw_" + pkg, TWIN_REC, True, arg.get("rev"))
        real = call_all(prog, pkg, REC, False, arg.get("rev"))
        steps.append({"twin": twin_vals, "real": real, "versions": versions(prog, pkg)})
    return steps


# ---------------------------------------------------------------- judging
def judge(out, fail, hist, steps, label):
    prev_twin = None
    prev_versions = None
    for k, st in enumerate(steps):
        prog, desc = hist[k]
        kind = desc["kind"]
        out["obs"]["edit:" + kind] += 1
        if st is None:
            out["obs"]["edits_followed_by_no_call"] += 1
            continue
        changed = prev_twin is not None and any(
            st["twin"].get(n) != prev_twin.get(n) for n in st["twin"] if n in prev_twin)
        out["obs"]["steps"] += 1
        if changed:
            out["obs"]["behaviour_changing:" + kind] += 1
            out["nontrivial"].append("%s:%d" % (label, k))
        if prev_versions is not None and st["versions"] != prev_versions:
            out["obs"]["steps_where_a_version_changed"] += 1
        for name, calls in st["real"].items():
            want = st["twin"][name][0][0]
            for j, (o, ran) in enumerate(calls):
                out["obs"]["calls_judged"] += 1
                if not ran:
                    out["obs"]["calls_served_without_body"] += 1
                if o[0] == "raise" and o[1] == "UndeclaredDependencyError":
                    out["obs"]["undeclared_dependency_outcomes"] += 1
                    continue
                if o != want and o[0] == "raise" and want[0] == "raise" and [str(x).replace("tw_", "") for x in want] == [str(x) for x in o]:
                    continue  # (the same failure of the program itself; the twin's modules carry a prefix in their names)
                if o != want:
                    stale_of = None
                    for back in range(k - 1, -1, -1):
                        if steps[back] is not None and steps[back]["twin"].get(name, [[None]])[0][0] == o:
                            stale_of = back
                            break
                    what = ("value computed by an earlier edition is returned" if stale_of is not None
                            else "value differs from the un-memoized execution")
                    how = mechanism(hist, k, name)
                    fail("%s after %s" % (what, how),
                         "%s step %d (%s): %s (argument 1 unless @x) call %d returned %s, un-memoized execution of the current edition gives %s"
                         "%s; bodies run: %s; edit %s\n--- current edition, module of the function ---\n%s"
                         % (label, k, kind, name, j, o, want,
                            " (= value of edition %d)" % stale_of if stale_of is not None else "", ran,
                            json.dumps(desc), progs.render_all(prog)))
        prev_twin = st["twin"]
        prev_versions = st["versions"]


def mechanism(hist, k, name):
    """Mechanism signature of a stale value: the kind of the most recent edit beneath the function."""
    prog, desc = hist[k]
    idx = next(i for i, nd in enumerate(prog["nodes"]) if nd["name"] == name.split("@")[0])
    for back in range(k, 0, -1):
        p, d = hist[back]
        below = progs.reaches(p, idx) | {idx}
        grp = {d.get("node")} | {j for j, o in enumerate(p["nodes"]) if o.get("of") == d.get("node") and o["kind"] == "product"}
        if (d.get("node") is not None and grp & below) or (d.get("var") is not None and any(progs.uses_var(p, j, d["var"]) for j in below)):
            tk = p["nodes"][d["node"]]["kind"] if d.get("node") is not None else "variable"
            return "edit '%s' of a %s" % (d["kind"], {"memento": "memento function", "plain": "plain helper",
                                                      "wrapped": "decorator-wrapped helper", "lambda": "module-level lambda",
                                                      "product": "factory-made helper"}.get(tk, tk))
    return "no edit beneath it"


def run_case(case):
    if case.get("kind") == "limport":
        return run_limport(case)
    out = {"viol": [], "nontrivial": [], "obs": collections.Counter(), "sets": {"features": set()}}

    def fail(sig, msg):
        if len(out["viol"]) < 6:
            out["viol"].append({"sig": sig, "msg": msg})

    hist = build_history(case)
    label = "program %d/%d %s" % (case["seed"], case["idx"], case["delivery"])
    for p, _ in hist:
        out["sets"]["features"] |= progs.features(p)
    cache = 16 if case["idx"] % 3 == 0 else None
    rev = case["idx"] % 4 >= 2  # callees are called before their callers (what a caller needs is memoized already)
    with env.Scratch() as sc:
        try:
            if case["delivery"] == "cross":
                steps = []
                for k, (prog, desc) in enumerate(hist):
                    if desc.get("silent"):
                        steps.append(None)
                        continue
                    src = sc.path("src%d" % k)
                    progs.write_package(prog, src, twin=False)
                    progs.write_package(prog, src, twin=True)
                    steps.append(procs.in_child(cross_child, {"prog": prog, "src": src, "store": sc.path("store"), "cache": cache,
                                                                  "rev": rev}))
            else:
                steps = procs.in_child(inproc_child, {"hist": hist, "src": sc.path("src"), "store": sc.path("store"),
                                                      "delivery": case["delivery"], "cache": cache, "rev": rev}, timeout=300)
        except procs.ChildFailed as e:
            fail("running a generated program failed (%s)" % e.kind,
                 "%s: %s\n%s" % (label, str(e)[-1500:], json.dumps([d for _, d in hist])))
            steps = []
        judge(out, fail, hist, steps, label)
        out["sample"] = {"delivery": case["delivery"], "edits": [d["kind"] for _, d in hist[1:]],
                         "module_a": progs.render_module(hist[0][0], "a").split("\n")[:25]}
    out["obs"] = dict(out["obs"])
    out["sets"] = {k: sorted(v) for k, v in out["sets"].items()}
    return out


def conclude(agg):
    bc = sum(v for k, v in agg.obs.items() if k.startswith("behaviour_changing:"))
    kinds = sum(1 for k in agg.obs if k.startswith("behaviour_changing:"))
    return core.first(core.need(agg, "calls_judged", 500), core.need(agg, "calls_served_without_body", 100),
                      None if bc >= 40 else "only %d behaviour-changing steps" % bc,
                      None if kinds >= 10 else "only %d edit kinds changed behaviour" % kinds), {
        "behaviour_changing_steps": bc}
