"""C15 — batch evaluation equals element-wise evaluation, in order.

Monitors: results of call_batch / map_over_range slot by slot, the exception raised when asked for,
the content of the store afterwards, body executions.  Oracle: the same elements evaluated by
individual calls on a twin store."""
import collections
import json

from vf import core, domain, env, models

ID = "C15"
LEVEL = "exploration"
RULE = ("batches of length 0-8 over a pool of 5 distinct elements (values from the result domain, memoized "
        "exceptions, not-to-be-memoized exceptions) with duplicates x a random subset of the pool memoized "
        "beforehand x raise_first_exception in {true, false} x presentation {call_batch with full kwargs, "
        "call_batch on a partial prefix (by position / by name), map_over_range on a partial prefix} x stores "
        "{filesystem, filesystem+cache, memory}; the same elements are evaluated by individual calls on a twin "
        "store; non-trivial = distinct batches containing a duplicate, a failing element, a pre-memoized and a "
        "not-yet-memoized element at once"
        '; rounds 7-9: batches whose elements name different parameters'
        '; rounds 10-11: a function with **opts and elements naming parameters outside the signature'
        '; round 12: batches of 300+ elements with early and middle failures, first failure raised'
        '; round 13: ignore_result batches over memoized elements'
        '; round 14: every third batch under the function\'s own context arguments'
        '; round 15: dates / timestamps next to their spellings as elements; elements whose body evaluates a batch of its own'
        '; round 17: elements passing one and the same list / dictionary object to a body that uses its arguments up')
ASSUMPTIONS = ["elements raising not-to-be-memoized exceptions are exempt from the at-most-once rule",
               "store states are compared as sets of (qualified name, argument hash, result type, value)"]
TIMEOUT = 600


def cases(tier, seed):
    n = 40 if tier == "quick" else 2500
    for i in range(n):
        yield {"seed": seed, "idx": i, "batches": 8}


def outcome_of(call):
    try:
        return ("ret", call())
    except Exception as e:
        return ("raise", e)


def same_outcome(a, b):
    """a, b: ("ret", v) | ("raise", exc). Failures compare by class and message prefix."""
    if a[0] != b[0]:
        return False
    if a[0] == "ret":
        return domain.eq_safe(a[1], b[1])[0]
    return type(a[1]) is type(b[1]) and str(a[1].args[0] if a[1].args else "")[:25] == str(b[1].args[0] if b[1].args else "")[:25]


def store_state(storage, fn):
    out = {}
    for m in storage.list_mementos(fn.fn_reference()) or []:
        fw = m.invocation_metadata.fn_reference_with_args
        v = storage.read_result(m)
        if isinstance(v, Exception):  # stored exceptions compare by recorded class name and message
            v = ("exception", getattr(v, "exception_name", type(v).__name__), getattr(v, "message", str(v)))
        out[(fw.fn_reference.qualified_name, fw.arg_hash)] = (m.invocation_metadata.result_type.name, v)
    return out


def run_case(case):
    from vf import ffuncs
    from vf.recorder import REC

    out = {"viol": [], "nontrivial": [], "obs": collections.Counter(), "sets": {"presentations": set()}}
    rng = core.rng_for(case["seed"], ID, case["idx"])

    def fail(sig, msg):
        if len(out["viol"]) < 8:
            out["viol"].append({"sig": sig, "msg": msg})

    with env.Scratch() as sc:
        for b in range(case["batches"]):
            prefix = "p%d_%d_%d" % (case["seed"], case["idx"], b)
            # elements are told apart the way memento tells arguments apart (value and type), not by Python equality:
            # now and then the pool holds values that are equal for Python and distinct for memento
            pool = [1, 1.0, True, 0, False, 2] if rng.random() < 0.3 else list(range(5))
            if (case["idx"] + b) % 5 == 1:
                # (no draw) ... dates and timestamps next to the text that spells them: distinct calls as well
                import datetime as _dt

                d0, t0 = _dt.date(2020, 1, 2), _dt.datetime(2020, 1, 2, 3, 4, 5)
                t1 = _dt.datetime(2020, 1, 2, 3, 4, 5, tzinfo=_dt.timezone.utc)
                pool = [d0, str(d0), t0, str(t0), t1, str(t1)]
                out["obs"]["batches_over_dates_and_their_spellings"] += 1
            rid = repr
            kinds = {}
            by_key = {}
            for k in pool:
                r = rng.random()
                key = "%s|%s" % (prefix, k)
                if key in by_key:  # (a date and the text that spells it look up the same table entry: same kind of outcome)
                    kinds[rid(k)] = by_key[key]
                    continue
                by_key[key] = None
                if r < 0.6:
                    vr = core.rng_for(prefix, k)
                    ffuncs.TABLE[key] = (lambda vr_seed=(prefix, k): domain.gen_result(core.rng_for(*vr_seed), 1))
                    kinds[rid(k)] = "value"
                elif r < 0.88:
                    ffuncs.TABLE[key] = ("__raise__", rng.choice([ValueError, KeyError, ffuncs.CustomError, ffuncs.TwoArgs]),
                                         ("elem %s failed" % rid(k), ) * 1)
                    if ffuncs.TABLE[key][1] is ffuncs.TwoArgs:
                        ffuncs.TABLE[key] = ("__raise__", ffuncs.TwoArgs, ("elem %s" % rid(k), "x"))
                    kinds[rid(k)] = "fails"
                else:
                    ffuncs.TABLE[key] = ("__raise__", ffuncs.Transient, ("elem %s later" % rid(k),))
                    kinds[rid(k)] = "transient"
                by_key[key] = kinds[rid(k)]
            batch = [rng.choice(pool) for _ in range(rng.choice([0, 1, 2, 3, 4, 5, 6, 8]))]
            pre = [k for k in pool if rng.random() < 0.4]
            pre_ids = {rid(k) for k in pre}
            raise_first = rng.random() < 0.5
            pres = rng.choice(["full", "partial_pos", "partial_name", "map"])
            skind = rng.choice(["fs", "fs+cache", "memory"])
            label = "batch %s over %s pre-memoized %s raise_first=%s presentation %s store %s" % (
                batch, kinds, pre, raise_first, pres, skind)
            out["sets"]["presentations"].add("%s/%s/%s" % (pres, skind, raise_first))
            # every third batch: the function carries context arguments of its own (individual calls and the batch alike)
            P = ffuncs.pair
            if (case["idx"] + b) % 3 == 0:
                P = ffuncs.pair.with_context_args({"tenant": b, "asof": ["2020-01-01"]})
                label += " under context arguments"
                out["obs"]["batches_under_context_arguments"] += 1

            def mk(tag):
                if skind == "memory":
                    return env.mem_backend()
                return env.fs_backend(sc.path("%s%d" % (tag, b)), cache_mb=(16 if skind == "fs+cache" else None))

            # ---- twin store: individual calls
            stB = mk("B")
            env.set_env(sc.path("envB"), default_storage=stB)
            for k in pre:
                outcome_of(lambda: P(prefix, k))
            indiv = [outcome_of(lambda k=k: P(prefix, k)) for k in batch]
            stateB = store_state(stB, ffuncs.pair)
            # ---- batch store
            stA = mk("A")
            if skind == "fs+cache":
                # some elements were memoized by an earlier session: on disk, but cold in the memory cache
                cold = [k for k in pre if rng.random() < 0.5]
                cold_ids = {rid(k) for k in cold}
                env.set_env(sc.path("envA0"), default_storage=env.fs_backend(sc.path("A%d" % b)))
                for k in cold:
                    outcome_of(lambda: P(prefix, k))
                out["obs"]["elements_cold_in_cache"] += len(cold)
            env.set_env(sc.path("envA"), default_storage=stA)
            for k in pre:
                if skind != "fs+cache" or rid(k) not in cold_ids:
                    outcome_of(lambda: P(prefix, k))
            mark = REC.mark()
            if pres == "full":
                call = lambda: P.call_batch([{"prefix": prefix, "k": k} for k in batch], raise_first_exception=raise_first)
            elif pres == "partial_pos":
                call = lambda: P.partial(prefix).call_batch([{"k": k} for k in batch], raise_first_exception=raise_first)
            elif pres == "partial_name":
                call = lambda: P.partial(prefix=prefix).call_batch([{"k": k} for k in batch], raise_first_exception=raise_first)
            else:
                # the range is any iterable: sequences, views and one-shot iterators
                rkind = rng.choice(["list", "tuple", "generator", "iter", "reversed", "map", "dict_keys"] if len(pool) == 5 else
                                   ["list", "tuple", "generator", "iter", "reversed"])  # (the last two kinds would merge / retype twins)
                mk_range = {"list": lambda: list(batch), "tuple": lambda: tuple(batch), "generator": lambda: (k for k in batch),
                            "iter": lambda: iter(list(batch)), "reversed": lambda: reversed(list(reversed(batch))),
                            "map": lambda: map(int, [str(k) for k in batch]), "dict_keys": lambda: dict.fromkeys(batch).keys()}[rkind]
                call = lambda: P.partial(prefix).map_over_range(k=mk_range())
                raise_first = True
                label += " range given as %s" % rkind
                out["sets"]["presentations"].add("map/%s" % rkind)
            got = outcome_of(call)
            events = REC.since(mark)
            out["obs"]["batches"] += 1
            first_fail = next((o for o in indiv if o[0] == "raise"), None)
            if raise_first and first_fail is not None:
                out["obs"]["raise_first_checked"] += 1
                if got[0] != "raise" or not same_outcome(got, first_fail):
                    fail("with raise_first_exception the exception raised is not the first failing slot's",
                         "%s: got %s expected %s" % (label, domain.describe(got, 150), domain.describe(first_fail, 150)))
            elif got[0] == "raise":
                fail("batch evaluation raises " + type(got[1]).__name__, "%s: %r" % (label, got[1]))
            else:
                res = got[1]
                if pres == "map":
                    exp = {}
                    for k in batch:
                        exp[k] = None
                    if not isinstance(res, dict) or [rid(k) for k in res] != [rid(k) for k in exp]:
                        fail("map_over_range does not return one entry per value of the range, in range order",
                             "%s: %s" % (label, domain.describe(res, 200)))
                        res = None
                    else:
                        # Python-equal values share a dictionary slot; the later element's result stays there
                        last = {}
                        for i, k in enumerate(batch):
                            last[k] = i
                        keep = sorted(last.values())
                        res = [res[batch[i]] for i in keep]
                        indiv_cmp = [indiv[i] for i in keep]
                        batch_cmp = [batch[i] for i in keep]
                if res is not None:
                    if pres != "map":
                        indiv_cmp, batch_cmp = indiv, batch
                    if len(res) != len(batch_cmp):
                        fail("batch result has the wrong length", "%s: %d results" % (label, len(res)))
                    else:
                        for i, (r, o) in enumerate(zip(res, indiv_cmp)):
                            out["obs"]["slots_compared"] += 1
                            slot = ("raise", r) if isinstance(r, Exception) else ("ret", r)
                            if not same_outcome(slot, o):
                                fail("a batch slot differs from the individual call",
                                     "%s: slot %d (element %r): batch %s, individual %s" % (label, i, batch_cmp[i],
                                                                                         domain.describe(slot, 120), domain.describe(o, 120)))
            # store state
            stateA = store_state(stA, ffuncs.pair)
            out["obs"]["store_states_compared"] += 1
            if set(stateA) != set(stateB) or any(stateA[k][0] != stateB[k][0] or not domain.eq_safe(stateA[k][1], stateB[k][1])[0]
                                                 for k in stateA if k in stateB):
                fail("the store after a batch differs from the store after individual calls",
                     "%s: batch store has %d entries, individual store %d; differing keys %s" % (
                         label, len(stateA), len(stateB), sorted(k[1][:8] for k in set(stateA) ^ set(stateB))))
            # body executions
            runs = collections.Counter(e[1][0] for e in events if e[0] == "pair")
            for k in {"%s|%s" % (prefix, k): k for k in batch}.values():
                n = runs.get("%s|%s" % (prefix, k), 0)
                if kinds[rid(k)] == "transient":
                    continue
                # (elements that look up the same table entry - a date and its spelling - are distinct calls, counted together)
                want = len({rid(x) for x in batch if "%s|%s" % (prefix, x) == "%s|%s" % (prefix, k) and rid(x) not in pre_ids})
                out["obs"]["element_body_counts_checked"] += 1
                if len(pool) == 6:
                    out["obs"]["typed_twin_elements_checked"] += 1
                if n != want:
                    fail("a distinct batch element's body ran the wrong number of times",
                         "%s: element %r ran %d times, expected %d" % (label, k, n, want))
            if (len({rid(k) for k in batch}) < len(batch) and any(kinds[rid(k)] == "fails" for k in batch)
                    and any(rid(k) in pre_ids for k in batch) and any(rid(k) not in pre_ids for k in batch)):
                out["nontrivial"].append("%s" % prefix)
            if b == 0:
                out["sample"] = {"batch": batch, "kinds": kinds, "pre_memoized": pre, "raise_first": raise_first,
                                 "presentation": pres, "store": skind}
        # ---- a batch whose elements do not all name the same parameters (some leave an optional parameter to its
        # default, or to a partially applied value, that another element gives explicitly)
        prefix = "q%d_%d" % (case["seed"], case["idx"])
        for k in range(4):
            ffuncs.TABLE["%s|%s" % (prefix, k)] = 100 + k
        elems = []
        for _ in range(rng.randint(2, 6)):
            kw = {"k": rng.randrange(4)}
            if rng.random() < 0.5:
                kw["tag"] = rng.choice(["t0", "t1"])
            if rng.random() < 0.4:
                kw["scale"] = rng.choice([1, 2])
            elems.append(kw)
        how = rng.choice(["full", "partial_name", "partial_tag"])
        base = {"full": lambda: ffuncs.pair3, "partial_name": lambda: ffuncs.pair3.partial(prefix=prefix),
                "partial_tag": lambda: ffuncs.pair3.partial(prefix=prefix, tag="t9")}[how]
        full = [dict(kw, prefix=prefix) if how == "full" else dict(kw) for kw in elems]
        label = "batch with mixed parameter names %s (%s)" % (elems, how)
        env.set_env(sc.path("envM1"), default_storage=env.fs_backend(sc.path("M1")))
        indiv = [outcome_of(lambda kw=kw: base()(**kw)) for kw in full]
        stateB = store_state(Environment_storage(), ffuncs.pair3)
        env.set_env(sc.path("envM2"), default_storage=env.fs_backend(sc.path("M2")))
        mark = REC.mark()
        got = outcome_of(lambda: base().call_batch([dict(kw) for kw in full], raise_first_exception=False))
        runs = collections.Counter(e[1][0] for e in REC.since(mark) if e[0] == "pair3")
        stateA = store_state(Environment_storage(), ffuncs.pair3)
        out["obs"]["batches_with_mixed_parameter_names"] += 1
        if got[0] == "raise":
            fail("batch evaluation raises " + type(got[1]).__name__, "%s: %r" % (label, got[1]))
        else:
            for i, (r, o) in enumerate(zip(got[1], indiv)):
                out["obs"]["slots_compared"] += 1
                if not same_outcome(("ret", r), o):
                    fail("a batch slot differs from the individual call",
                         "%s: slot %d: batch %s, individual %s" % (label, i, domain.describe(r, 80), domain.describe(o, 80)))
        if set(stateA) != set(stateB):
            fail("the store after a batch differs from the store after individual calls",
                 "%s: batch store has %d entries, individual store %d" % (label, len(stateA), len(stateB)))
        distinct = {json.dumps(kw, sort_keys=True) for kw in full}
        if sum(runs.values()) > len(distinct):
            fail("a distinct batch element's body ran the wrong number of times",
                 "%s: %d body executions for %d distinct elements" % (label, sum(runs.values()), len(distinct)))
        # ---- batches through ignore_result() over elements that are all memoized beforehand, some of them as failures:
        # the failures still appear in their slots / the first one is raised, as the individual calls do
        ip = "I%d_%d" % (case["seed"], case["idx"])
        ikeys = list(range(4))
        ifail = {rng.randrange(4)}
        for k in ikeys:
            ffuncs.TABLE["%s|%s" % (ip, k)] = ("__raise__", ValueError, ("elem %d failed" % k,)) if k in ifail else k + 50
        for raise_first in (False, True):
            env.set_env(sc.path("envI%d" % raise_first), default_storage=env.fs_backend(sc.path("I%d" % raise_first)))
            for k in ikeys:
                outcome_of(lambda k=k: ffuncs.pair(ip, k))
            indiv = [outcome_of(lambda k=k: ffuncs.pair.ignore_result()(ip, k)) for k in ikeys]
            got = outcome_of(lambda: ffuncs.pair.ignore_result().call_batch([{"prefix": ip, "k": k} for k in ikeys],
                                                                        raise_first_exception=raise_first))
            out["obs"]["ignore_result_batches_over_memoized_elements"] += 1
            label = "ignore_result batch over memoized elements %s (failing %s), raise_first=%s" % (ikeys, sorted(ifail), raise_first)
            first_fail = next((o for o in indiv if o[0] == "raise"), None)
            if raise_first:
                if got[0] != "raise" or not same_outcome(got, first_fail):
                    fail("with raise_first_exception the exception raised is not the first failing slot's",
                         "%s: got %s expected %s" % (label, domain.describe(got, 120), domain.describe(first_fail, 120)))
            elif got[0] == "raise":
                fail("batch evaluation raises " + type(got[1]).__name__, "%s: %r" % (label, got[1]))
            else:
                for i, (r, o) in enumerate(zip(got[1], indiv)):
                    out["obs"]["slots_compared"] += 1
                    slot = ("raise", r) if isinstance(r, Exception) else ("ret", r)
                    if not same_outcome(slot, o):
                        fail("a batch slot differs from the individual call",
                             "%s: slot %d: batch %s, individual %s" % (label, i, domain.describe(slot, 80), domain.describe(o, 80)))
        # ---- elements that pass one and the same list / dictionary object, to a body that uses its arguments up
        dp = "D%d_%d" % (case["seed"], case["idx"])
        shared_l, shared_o = [5, 6, 7, 8], {"scale": 3, "unit": "x"}
        dks = [0, 1, 2, 1][: 3 + case["idx"] % 2]
        env.set_env(sc.path("envD1"), default_storage=env.mem_backend() if case["idx"] % 2 else env.fs_backend(sc.path("D1")))
        dind = [outcome_of(lambda k=k: ffuncs.drain(dp, k, shared_l, shared_o)) for k in dks]
        env.set_env(sc.path("envD2"), default_storage=env.mem_backend() if case["idx"] % 2 else env.fs_backend(sc.path("D2")))
        dgot = outcome_of(lambda: ffuncs.drain.call_batch([{"prefix": dp, "k": k, "xs": shared_l, "opts": shared_o} for k in dks],
                                                         raise_first_exception=False))
        out["obs"]["batches_whose_elements_share_an_argument_object"] += 1
        label = "batch over k=%s whose elements pass the same list and dictionary objects to a body that uses them up" % dks
        if shared_l != [5, 6, 7, 8] or shared_o != {"scale": 3, "unit": "x"}:
            fail("a call changed its caller's argument objects", "%s: %s %s" % (label, shared_l, shared_o))
        if dgot[0] != "ret" or len(dgot[1]) != len(dind) or not all(
                same_outcome(("raise", r) if isinstance(r, Exception) else ("ret", r), o) for r, o in zip(dgot[1], dind)):
            fail("a batch slot differs from the individual call", "%s: batch %s, individual calls %s" % (
                label, domain.describe(dgot, 200), domain.describe(dind, 200)))
        # ---- a batch whose elements evaluate batches of their own (rolling windows over another function), with some of the
        # inner calls memoized beforehand
        wp = "W%d_%d" % (case["seed"], case["idx"])
        for k in range(8):
            ffuncs.TABLE["%s|%s" % (wp, k)] = ("__raise__", ValueError, ("elem %d failed" % k,)) if k == 5 and case["idx"] % 2 else 10 * (k + 1)
        wpre = [k for k in range(8) if (k + case["idx"]) % 3 != 1]
        wks = [0, 1, 2, 4, 1][: 3 + case["idx"] % 3]
        wstates = []
        for mode in ("individual", "batch"):
            st = env.fs_backend(sc.path("W" + mode)) if case["idx"] % 2 else env.mem_backend()
            env.set_env(sc.path("envW" + mode), default_storage=st)
            for k in wpre:
                outcome_of(lambda k=k: ffuncs.pair(wp, k))
            mark = REC.mark()
            if mode == "individual":
                wres = [outcome_of(lambda k=k: ffuncs.window(wp, k)) for k in wks]
            else:
                got = outcome_of(lambda: ffuncs.window.call_batch([{"prefix": wp, "k": k} for k in wks], raise_first_exception=False))
                wres = [("ret", r) for r in got[1]] if got[0] == "ret" else [got]
            wruns = collections.Counter((e[0], e[1][-1] if e[0] == "window" else e[1][0]) for e in REC.since(mark) if e[0] in ("window", "pair"))
            wstates.append((wres, wruns, store_state(st, ffuncs.window), store_state(st, ffuncs.pair)))
        out["obs"]["batches_of_elements_that_evaluate_batches"] += 1
        label = "batch of windows %s over pair(%s, 0..7), inner calls memoized beforehand: %s" % (wks, wp, wpre)
        (ri, ni, swi, spi), (rb, nb, swb, spb) = wstates
        if len(ri) != len(rb) or not all(same_outcome(a, b) for a, b in zip(ri, rb)):
            fail("a batch slot differs from the individual call", "%s: batch %s, individual calls %s" % (
                label, domain.describe(rb, 200), domain.describe(ri, 200)))
        if ni != nb:
            fail("a distinct batch element's body ran the wrong number of times", "%s: bodies run by the batch %s, by individual calls %s" % (
                label, sorted(nb.items()), sorted(ni.items())))
        if set(swi) != set(swb) or set(spi) != set(spb):
            fail("the store after a batch differs from the store after individual calls", "%s: entries of window %d / %d, of pair %d / %d" % (
                label, len(swb), len(swi), len(spb), len(spi)))
        # ---- a long batch (several hundred elements) with failing elements near its beginning and in its middle, the first
        # failure raised: every element is evaluated and memoized all the same, as the individual calls do
        if case["idx"] % 4 == 0:
            lp = "L%d_%d" % (case["seed"], case["idx"])
            n_long = 300 + rng.randrange(40)
            failing = {rng.randrange(3, 40), rng.randrange(100, 200)}
            for k in range(n_long):
                ffuncs.TABLE["%s|%s" % (lp, k)] = ("__raise__", ValueError, ("elem %d failed" % k,)) if k in failing else k * 3
            env.set_env(sc.path("envL1"), default_storage=env.mem_backend())
            for k in range(n_long):
                outcome_of(lambda k=k: ffuncs.pair(lp, k))
            stateB = store_state(Environment_storage(), ffuncs.pair)
            for how in ("call_batch", "map_over_range"):
                env.set_env(sc.path("envL2" + how), default_storage=env.mem_backend())
                mark = REC.mark()
                if how == "call_batch":
                    got = outcome_of(lambda: ffuncs.pair.call_batch([{"prefix": lp, "k": k} for k in range(n_long)]))
                else:
                    got = outcome_of(lambda: ffuncs.pair.partial(lp).map_over_range(k=range(n_long)))
                ran = len([e for e in REC.since(mark) if e[0] == "pair"])
                stateA = store_state(Environment_storage(), ffuncs.pair)
                out["obs"]["long_batches"] += 1
                label = "%s over %d elements, failing %s, first failure raised" % (how, n_long, sorted(failing))
                if got[0] != "raise" or "elem %d failed" % min(failing) not in str(got[1]):
                    fail("with raise_first_exception the exception raised is not the first failing slot's", "%s: got %s" % (label, domain.describe(got, 120)))
                if set(stateA) != set(stateB):
                    fail("the store after a batch differs from the store after individual calls",
                         "%s: batch store has %d entries, individual store %d" % (label, len(stateA), len(stateB)))
                if ran != n_long:
                    fail("a distinct batch element's body ran the wrong number of times", "%s: %d bodies ran for %d distinct elements" % (label, ran, n_long))
        # ---- a function that takes free-form settings (**opts): elements pass settings the signature does not name; and
        # one element of a batch over a plain signature names a parameter the function does not have (element-wise that
        # call fails with TypeError, which belongs in its slot)
        for fn_name, elems in (("pairk", [dict({"k": rng.randrange(4)}, **({"mode": rng.choice(["fast", "safe"])} if rng.random() < 0.6 else {}),
                                               **({"level": rng.randrange(3)} if rng.random() < 0.4 else {}))
                                          for _ in range(rng.randint(2, 5))]),
                               ("pair3", [{"k": 0}, {"k": 1, "bogus": 1}, {"k": 2}])):
            fn = getattr(ffuncs, fn_name)
            full = [dict(kw, prefix=prefix) for kw in elems]
            label = "batch over %s with elements %s" % (fn_name, elems)
            env.set_env(sc.path("envK1" + fn_name), default_storage=env.fs_backend(sc.path("K1" + fn_name)))
            indiv = [outcome_of(lambda kw=kw: fn(**kw)) for kw in full]
            stateB = store_state(Environment_storage(), fn)
            env.set_env(sc.path("envK2" + fn_name), default_storage=env.fs_backend(sc.path("K2" + fn_name)))
            got = outcome_of(lambda: fn.call_batch([dict(kw) for kw in full], raise_first_exception=False))
            stateA = store_state(Environment_storage(), fn)
            out["obs"]["batches_with_names_outside_the_signature"] += 1
            if got[0] == "raise":
                fail("batch evaluation raises " + type(got[1]).__name__, "%s: %r" % (label, got[1]))
            else:
                for i, (r, o) in enumerate(zip(got[1], indiv)):
                    out["obs"]["slots_compared"] += 1
                    slot = ("raise", r) if isinstance(r, Exception) else ("ret", r)
                    if not same_outcome(slot, o):
                        fail("a batch slot differs from the individual call",
                             "%s: slot %d: batch %s, individual %s" % (label, i, domain.describe(r, 80), domain.describe(o, 80)))
            if set(stateA) != set(stateB):
                fail("the store after a batch differs from the store after individual calls",
                     "%s: batch store has %d entries, individual store %d" % (label, len(stateA), len(stateB)))
    out["obs"] = dict(out["obs"])
    out["sets"] = {k: sorted(v) for k, v in out["sets"].items()}
    return out


def Environment_storage():
    import twosigma.memento as m

    return m.Environment.get().default_cluster.storage


def conclude(agg):
    return core.first(core.need(agg, "slots_compared", 300), core.need(agg, "store_states_compared", 200),
                      core.need(agg, "raise_first_checked", 30), core.need(agg, "element_body_counts_checked", 300), core.need(agg, "typed_twin_elements_checked", 50)), {}
