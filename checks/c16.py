"""C16 — context arguments key results, flow to nested calls, stay out of parameters.

Monitors: parameters seen by every body (recorder), where stored entries are found, recorded
context of every invocation, body executions when the root context changes, outcome of nested
calls under prevent_further_calls.  Oracle: effective-context closed form (vf.trees.simulate)."""
import collections
import json

from vf import core, domain, env, trees
from checks.c10 import fn_of, call_args, record_of

ID = "C16"
LEVEL = "exploration"
RULE = ("generated call DAGs (as in C10) whose edges may attach their own context dictionary (including the "
        "empty one) and whose root is called with or without context arguments; after the run every entry is "
        "looked up under its effective context (found) and under a different one (absent), recorded invocation "
        "contexts and argument hashes are compared with the closed form, the root is re-run under the same "
        "context (no body may run) and under a different one (exactly the entries whose effective context "
        "changed may run), on filesystem / filesystem+cache / memory stores; prevent_further_calls scenarios "
        "use nodes of their own; non-trivial = distinct trees with >=1 inheriting edge below a context and >=1 "
        "overriding edge"
        '; rounds 7-9: prevented-parent scenarios go through every nested-call form, also calls attaching context arguments of their own'
        '; rounds 10-11: prevented calls that also attach context arguments, before or after the prevention')
ASSUMPTIONS = ["an edge that attaches a context (even an empty one) replaces the inherited context entirely",
               "prevented-call scenarios use argument values of their own (the outer call's outcome is memoized "
               "under the ordinary key; not judged by this property)"]
TIMEOUT = 600
# (contexts that are equal for Python and distinct for memento - 1 / True / 1.0 - are different contexts)
CTXS = [None, {"tenant": 1}, {"tenant": 2}, {"asof": "2020-01-01", "k": [1, 2]}, {"tenant": 1, "x": None}, {"tenant": True},
        {"tenant": 1.0}]
TWINS = [{"tenant": 1}, {"tenant": True}, {"tenant": 1.0}]


def cases(tier, seed):
    n = 100 if tier == "quick" else 5000
    for i in range(n):
        yield {"kind": "tree", "seed": seed, "idx": i}
    for i in range(21 if tier == "quick" else 300):
        yield {"kind": "prevent", "seed": seed, "idx": i}


def with_ctx(f, ctx):
    return f.with_context_args(dict(ctx)) if ctx is not None else f


def invoke(root, tid, ctx, batch=False):
    f = with_ctx(fn_of(root), ctx)
    try:
        if batch:
            return f.call_batch([{"tree": tid, "node": 0}], raise_first_exception=False)[0]
        return f(tid, 0)
    except Exception as e:
        return e


def ev_key(ev):
    return (ev[1][0], ev[1][2], ev[1][4])


def ent_key(e):
    return (e.fn, e.node, e.fnarg.i if e.fnarg else None)


def run_tree(case, out, fail):
    from vf import tfuncs
    from vf.recorder import REC

    rng = core.rng_for(case["seed"], ID, case["idx"])
    tid = "X%d_%d" % (case["seed"], case["idx"])
    tree = trees.gen_tree(rng, tid, with_context=True)
    tfuncs.TREES[tid] = tree
    ctx0 = rng.choice(CTXS)
    js = lambda c: json.dumps(c, sort_keys=True)
    ctx1 = rng.choice([c for c in CTXS if js(c) != js(ctx0)])
    if rng.random() < 0.3:  # the second context is a typed twin of the first
        ctx0 = rng.choice(TWINS)
        ctx1 = rng.choice([c for c in TWINS if js(c) != js(ctx0)])
        out["obs"]["typed_twin_context_pairs"] += 1
    batch = rng.random() < 0.3
    ent0 = trees.simulate(tree, root_ctx=ctx0)
    ent1 = trees.simulate(tree, root_ctx=ctx1)
    root = ent0[next(iter(ent0))]
    label = "root ctx %s" % (ctx0,)
    tj = json.dumps(tree)[:1500]
    with env.Scratch() as sc:
        kind = case["idx"] % 3
        mk = (lambda p: env.mem_backend()) if kind == 2 else (lambda p: env.fs_backend(sc.path(p), cache_mb=(16 if kind else None)))
        env.set_env(sc.path("env"), default_storage=mk("d"), clusters={"c": mk("c")})
        mark = REC.mark()
        invoke(root, tid, ctx0, batch)
        events = REC.since(mark)
        # (a) bodies never receive context arguments as parameters
        for ev in events:
            out["obs"]["body_parameter_sets_seen"] += 1
            if ev[1][3]:
                fail("a body received context arguments as parameters", "%s: node %s got extra %s; tree %s" % (label, ev[1][2], ev[1][3], tj))
        # each distinct entry ran exactly once (transient ones may run more often)
        ran = collections.Counter(ev_key(ev) for ev in events)
        want = collections.Counter(ent_key(e) for e in ent0.values() if e.fail != "transient")
        for k, n in want.items():
            if any(ent_key(e) == k and e.fail == "transient" for e in ent0.values()):
                continue
            if ran.get(k, 0) != n:
                fail("number of body executions differs from the number of distinct (call, effective context) entries",
                     "%s: entry %s ran %d times, %d distinct effective contexts expected; tree %s" % (label, k, ran.get(k, 0), n, tj))
        # (b) entries are found under their effective context and not under another one
        known = {(ent_key(e), json.dumps(e.ctx or {}, sort_keys=True)) for e in ent0.values()}
        for e in ent0.values():
            if e.fail == "transient":
                continue
            f = fn_of(e)
            args = call_args(e, tid)
            m = with_ctx(f, e.ctx).memento(*args)
            out["obs"]["entries_looked_up"] += 1
            if m is None:
                fail("a nested call's entry is not stored under its effective context",
                     "%s: node %d effective context %s; tree %s" % (label, e.node, e.ctx, tj))
                continue
            fw = m.invocation_metadata.fn_reference_with_args
            if not domain.eq(fw.context_args or {}, e.ctx or {}) or fw.arg_hash != trees.arg_hash(tid, e.node, e.fnarg, e.ctx):
                fail("recorded context arguments of a call differ from its effective context",
                     "%s: node %d recorded %s expected %s; tree %s" % (label, e.node, fw.context_args, e.ctx, tj))
            got = record_of(m)["invocations"]
            if got != list(e.invocations):
                fail("recorded invocations (with context-dependent argument hashes) differ from the closed form",
                     "%s: node %d recorded %s expected %s; tree %s" % (label, e.node, core.short(got, 400),
                                                                     core.short(e.invocations, 400), tj))
            for other in ({"zz": 1}, None if e.ctx else {"tenant": 1}, dict(e.ctx or {}, zz=0)):
                if (ent_key(e), json.dumps(other or {}, sort_keys=True)) in known:
                    continue
                out["obs"]["foreign_context_lookups"] += 1
                if with_ctx(f, other).memento(*args) is not None:
                    fail("an entry is found under a context it was not computed under",
                         "%s: node %d effective %s also found under %s; tree %s" % (label, e.node, e.ctx, other, tj))
        # (d) same context again: nothing runs
        mark = REC.mark()
        invoke(root, tid, ctx0, not batch)
        again = [ev for ev in REC.since(mark)
                 if not any(ent_key(e) == ev_key(ev) and e.fail == "transient" for e in ent0.values())]
        out["obs"]["same_context_reruns"] += 1
        if again:
            fail("re-running under the same context executed a body", "%s: %s; tree %s" % (label, [ev[1][:3] for ev in again], tj))
        # (e) different root context: exactly the entries whose effective context is new may run
        old = {(ent_key(e), json.dumps(e.ctx or {}, sort_keys=True)) for e in ent0.values()}
        must = collections.Counter(ent_key(e) for e in ent1.values()
                                   if (ent_key(e), json.dumps(e.ctx or {}, sort_keys=True)) not in old and e.fail != "transient")
        mark = REC.mark()
        invoke(root, tid, ctx1, batch)
        ran = collections.Counter(ev_key(ev) for ev in REC.since(mark))
        transient = {ent_key(e) for e in ent1.values() if e.fail == "transient"}
        out["obs"]["changed_context_reruns"] += 1
        for k in set(must) | set(ran):
            if k in transient:
                continue
            if ran.get(k, 0) != must.get(k, 0):
                fail("after a context change the wrong set of bodies ran",
                     "root ctx %s -> %s: entry %s ran %d times, expected %d (inheriting nodes re-execute, overriding "
                     "nodes with unchanged effective context are served); tree %s" % (ctx0, ctx1, k, ran.get(k, 0), must.get(k, 0), tj))
        out["obs"]["entries_rerun_after_context_change"] += sum(must.values())
        inherits = any(e.ctx is not None and any(s[0] in ("call", "kwcall", "partial", "batch") for s in tree["nodes"][e.node]["steps"])
                       for e in ent0.values())
        overrides = any(s[0] == "ctxcall" for nd in tree["nodes"] for s in nd["steps"])
        if inherits and overrides:
            out["nontrivial"].append(tid)
        out["sample"] = {"root_context": ctx0, "changed_to": ctx1, "tree": tree}


def run_prevent(case, out, fail):
    from vf import tfuncs
    from vf.recorder import REC

    rng = core.rng_for(case["seed"], ID, "prevent", case["idx"])
    tid = "P%d_%d" % (case["seed"], case["idx"])
    f = [rng.randrange(6) for _ in range(5)]
    # every form of nested call in turn (the case index decides, not a draw): also a nested call that attaches context
    # arguments of its own, with the same or other keys than the root's
    forms = [["call", f[2], 2], ["kwcall", f[2], 2], ["partial", f[2], 2], ["batch", f[2], [2, 2]],
             ["ctxcall", f[2], 2, {"tenant": 9}], ["ctxcall", f[2], 2, {"asof": "2020-01-01"}], ["ctxcall", f[2], 2, {}]]
    inner = forms[case["idx"] % len(forms)]
    # the prevented call may attach context arguments of its own, before or after the prevention (by case index)
    pstep = [["prevent", f[1], 1], ["prevent", f[1], 1, {"zone": 5}, "ctx_first"], ["prevent", f[1], 1, {"zone": 5}, "ctx_last"]][
        (case["idx"] // len(forms)) % 3]
    tree = {"id": tid, "nodes": [
        {"fn": f[0], "steps": [pstep, ["call", f[3], 3]], "fail": None},
        {"fn": f[1], "steps": [inner, ["resource", "res://p"]], "fail": None},   # runs with further calls prevented
        {"fn": f[2], "steps": [], "fail": None},                                   # must never run
        {"fn": f[3], "steps": [["call", f[4], 4]], "fail": None},                  # ordinary sibling: runs
        {"fn": f[4], "steps": [], "fail": None}]}
    tfuncs.TREES[tid] = tree
    with env.Scratch() as sc:
        env.set_env(sc.path("env"), default_storage=env.fs_backend(sc.path("d")), clusters={"c": env.fs_backend(sc.path("c"))})
        mark = REC.mark()
        ctx = rng.choice([None, {"tenant": 1}])
        res = with_ctx(tfuncs.FUN.fns[f[0]], ctx)(tid, 0)
        nodes_run = [ev[1][2] for ev in REC.since(mark)]
        out["obs"]["prevent_scenarios"] += 1
        if 2 in nodes_run:
            fail("a nested memento call executed although further calls were prevented",
                 "inner step %s: bodies run for nodes %s" % (inner, nodes_run))
        if sorted(nodes_run) != [0, 1, 3, 4]:
            fail("wrong set of bodies ran around a prevented call", "inner step %s: nodes %s" % (inner, nodes_run))
        inner_res = res[1] if isinstance(res, list) and len(res) > 1 else None
        if not (isinstance(inner_res, list) and inner_res[1:] == ["exc:RuntimeError"]):
            fail("a nested memento call under prevent_further_calls did not fail with a runtime error",
                 "inner step %s: prevented node returned %r" % (inner, inner_res))
        if tfuncs.FUN.fns[f[2]].memento(tid, 2) is not None or with_ctx(tfuncs.FUN.fns[f[2]], ctx).memento(tid, 2) is not None:
            fail("a prevented nested call left an entry in the store", "inner step %s" % (inner,))
        out["nontrivial"].append(tid)
        out["sample"] = {"prevent_tree": tree}


def run_case(case):
    out = {"viol": [], "nontrivial": [], "obs": collections.Counter()}

    def fail(sig, msg):
        if len(out["viol"]) < 8:
            out["viol"].append({"sig": sig, "msg": msg})

    (run_tree if case["kind"] == "tree" else run_prevent)(case, out, fail)
    out["obs"] = dict(out["obs"])
    return out


def conclude(agg):
    return core.first(core.need(agg, "entries_looked_up", 300), core.need(agg, "foreign_context_lookups", 300),
                      core.need(agg, "entries_rerun_after_context_change", 100), core.need(agg, "prevent_scenarios", 10),
                      core.need(agg, "typed_twin_context_pairs", 8),
                      core.need(agg, "body_parameter_sets_seen", 300)), {}
