"""C19 — read-only and null back-ends never write and never execute.

Monitors: tree snapshot diff of every storage path (ground truth), audit-hook log of mutating
filesystem events under those paths, outcome of every operation; thorough adds strace."""
import collections
import json
import os
import subprocess
import sys

from vf import core, domain, env, fsobs, storeops

ID = "C19"
LEVEL = "exploration"
RULE = ("a store is pre-populated through a writable backend by a random history, its tree is snapshotted "
        "(type, size, mtime_ns, sha256 per entry), then re-opened read-only (flag from the constructor "
        "argument or from the configuration dict; no cache / 4 KiB / 1 MiB cache; shared or separate metadata "
        "path; also a read-only memory backend) and driven by a second random history plus function-level "
        "calls of memoized and not-memoized arguments; expected: reads answer as the frozen dictionary, "
        "memoize is silently skipped, forget_* and metadata writes raise ValueError, snapshot identical, no "
        "mutating audit event; null storage / null runner scenarios run alongside; non-trivial = read-only "
        "histories in which >=1 skipped memoize, >=1 rejected mutation and >=1 served read were all observed"
        "; rounds 7-9: a writable backend created from a configuration before the read-only one, calls nested into a null-runner cluster from another cluster's body"
        '; rounds 10-11: one configuration dictionary used with an explicit read_only=False and then alone, on-disk partition results under a read-only cluster'
        '; round 13: with-data metadata of a call memoized again, read through the read-only backend'
        '; round 14: the read-only flag arriving as text from a quoted JSON template (six spellings)'
        '; round 15: the same nested call made four times (twice in one batch) under null storage')
ASSUMPTIONS = ["CPython audit events (open, os.mkdir, os.rename, os.remove, os.rmdir, shutil.rmtree, ...) are "
               "secondary evidence; the tree snapshot is the ground truth",
               "access times are not part of 'modified'"]
TIMEOUT = 300
VARIANTS = [(flag, cache, meta) for flag in ("arg", "config", "arg_over_dump", "config_shared", "config_text") for cache in (None, "4KiB", "1MiB")
            for meta in (False, True)]


def cases(tier, seed):
    n = 150 if tier == "quick" else 5000
    for i in range(n):
        yield {"kind": "ro", "seed": seed, "idx": i, "variant": i % len(VARIANTS)}
    for i in range(48 if tier == "quick" else 1000):
        # the same on a store that an interrupted writer / forgetter left damaged (dangling or empty links,
        # leftover staging files): whatever the reads answer, nothing may be modified
        yield {"kind": "ro", "seed": seed, "idx": 100000 + i, "variant": i % len(VARIANTS), "damaged": True}
    for i in range(10 if tier == "quick" else 200):
        yield {"kind": "ro_memory", "seed": seed, "idx": i}
    for i in range(30 if tier == "quick" else 300):
        yield {"kind": "null", "seed": seed, "idx": i}
    if tier == "thorough":
        for i in range(200):
            yield {"kind": "strace", "seed": seed, "idx": i, "variant": i % len(VARIANTS)}


def open_ro(sc, variant, writable=False):
    from twosigma.memento.storage import StorageBackend
    from twosigma.memento.storage_filesystem import FilesystemStorageBackend

    flag, cache, meta = VARIANTS[variant]
    mb = {None: None, "4KiB": 4 * env.KIB, "1MiB": 1}[cache]
    mpath = sc.path("meta") if meta else None
    if flag == "config_shared":
        # one configuration dictionary that says read-only: used with an explicit read_only=False to fill the store, and
        # afterwards on its own (the very same dictionary object)
        cfg = getattr(sc, "_shared_cfg", None)
        if cfg is None:
            cfg = {"type": "filesystem", "path": sc.path("data"), "readonly": True}
            if mpath:
                cfg["metadata_path"] = mpath
            sc._shared_cfg = cfg
        if writable:
            return FilesystemStorageBackend(config=cfg, read_only=False)
        b = StorageBackend.create("filesystem", cfg)
        if mb is not None and b._memory_cache is None:
            from twosigma.memento.storage_base import MemoryCache

            b._memory_cache = MemoryCache(mb)
        return b
    if writable:
        if flag == "config":
            # the store is first opened writable from a configuration as well (and that backend stays alive while the
            # same store is opened read-only from the read-only configuration)
            wcfg = {"type": "filesystem", "path": sc.path("data")}
            if mpath:
                wcfg["metadata_path"] = mpath
            return StorageBackend.create("filesystem", wcfg)
        return FilesystemStorageBackend(path=sc.path("data"), metadata_path=mpath)
    if flag == "arg":
        return FilesystemStorageBackend(path=sc.path("data"), metadata_path=mpath, memory_cache_mb=mb,
                                        read_only=True)
    if flag == "arg_over_dump":
        # the store is re-opened read-only from the writable backend's own description (which spells out
        # "readonly": false): the explicit argument wins
        desc = FilesystemStorageBackend(path=sc.path("data"), metadata_path=mpath).to_dict()
        return FilesystemStorageBackend(config=dict(desc), memory_cache_mb=mb, read_only=True)
    cfg = {"type": "filesystem", "path": sc.path("data"), "readonly": True}
    if mpath:
        cfg["metadata_path"] = mpath
    if flag == "config_text":
        # the flag reaches the configuration as text: a JSON repository file that is a template with the flag inside
        # quotes, rendered with a boolean / a spelled-out parameter (by the variant, no draw)
        import twosigma.memento as m

        cfg["readonly"] = "{{ ro }}"
        os.makedirs(sc.path("cfg"), exist_ok=True)
        with open(os.path.join(sc.path("cfg"), "repo.json"), "w") as f:
            json.dump({"name": "r", "clusters": {"c": {"name": "c", "storage": cfg}}}, f)
        spelled = [True, "TRUE", "Yes", "true", "on", 1][variant % 6]
        b = m.ConfigurationRepository.from_file(os.path.join(sc.path("cfg"), "repo.json"), ro=spelled).clusters["c"].storage
    else:
        b = StorageBackend.create("filesystem", cfg)
    if mb is not None and b._memory_cache is None:
        # memory_cache_mb from configuration is C18's business; here the cache is attached directly
        from twosigma.memento.storage_base import MemoryCache

        b._memory_cache = MemoryCache(mb)
    return b


def expect_ro(op, frozen):
    """Expected answer of op on a read-only backend whose content is the frozen model."""
    k = op[0]
    if k == "memoize":
        return None
    if k in ("forget_call", "forget_fn", "forget_all", "wmeta", "wmetad"):
        return "rejected"
    return storeops.Model.apply(frozen, op)


def damage(roots, rng, out):
    """Leaves a store the way interrupted writers / forgetters do: links whose target is gone, empty links,
    leftover staging files."""
    links = []
    for r in roots:
        for d, _, files in os.walk(r):
            links += [os.path.join(d, f) for f in files if f.endswith(".link")]
    rng.shuffle(links)
    done = 0
    for p in links[: max(2, len(links) // 3)]:
        how = rng.choice(["dangling", "dangling", "empty", "staging"])
        try:
            if how == "dangling":
                target = open(p).read().strip()
                if os.path.isfile(target):
                    os.remove(target)
            elif how == "empty":
                open(p, "w").close()
            else:
                with open(p + ".tmp", "w") as f:
                    f.write("/nowhere")
            done += 1
        except OSError:
            pass
    out["obs"]["links_damaged_before_opening_read_only"] += done
    return done


def drive_ro(b, refs, vals, frozen, ops, out, label, judge=True):
    flags = {"skipped": 0, "rejected": 0, "served": 0}
    for step, op in enumerate(ops):
        exp = expect_ro(op, frozen)
        got = storeops.apply_backend(b, refs, vals, op, model_before=(None if op[0] in ("wmeta", "wmetad") else frozen.d))
        out["obs"]["ro_ops"] += 1
        if not judge:
            out["obs"]["ro_ops_on_damaged_stores"] += 1
            continue
        if exp == "rejected":
            ok = isinstance(got, tuple) and got[0] == "raise" and got[1] == "ValueError"
            flags["rejected"] += ok
            if not ok:
                out["viol"].append({"sig": "%s through a read-only backend is not rejected" % op[0],
                                    "msg": "%s: op %s answered %s" % (label, op, storeops.show(got))})
        else:
            ok = storeops.answers_agree(op, exp, got, refs, vals)
            if op[0] == "memoize":
                flags["skipped"] += ok
            if op[0] == "read" and exp != "absent":
                flags["served"] += ok
            if not ok:
                out["viol"].append({"sig": "%s through a read-only backend answers wrongly" % op[0],
                                    "msg": "%s: step %d op %s expected %s got %s"
                                    % (label, step, op, storeops.show(exp), storeops.show(got))})
    return flags


def run_ro(case, out):
    rng = core.rng_for(case["seed"], ID, case["idx"])
    with env.Scratch() as sc:
        refs, vals = storeops.Refs("c"), storeops.values()
        w = open_ro(sc, case["variant"], writable=True)
        frozen = storeops.Model()
        pre = [op for op in storeops.gen_history(rng, 25) if op[0] != "forget_all"]
        pre += [["memoize", rng.randrange(3), rng.randrange(3), rng.choice(storeops.VALKEYS), None] for _ in range(3)]
        # ... and one call gets metadata stored next to its data object and is then memoized again with another result
        # (what the read-only store is asked about that key later must not make it tidy anything up)
        sf, sa = rng.randrange(3), rng.randrange(3)
        stale_meta = [["memoize", sf, sa, "u%d%d" % (sf, sa), None], ["wmetad", sf, sa, "log", "w0"],
                      ["memoize", sf, sa, rng.choice(["s0", "none", "k3"]), None]]
        pre += stale_meta
        for op in pre:
            before = dict(frozen.d)
            frozen.apply(op)
            storeops.apply_backend(w, refs, vals, op, model_before=before)
        roots = [sc.path("data"), sc.path("meta")]
        damaged = bool(case.get("damaged")) and damage(roots, rng, out) > 0
        snap = {r: fsobs.snapshot(r) for r in roots}
        audit = fsobs.AuditLog(roots)
        b = open_ro(sc, case["variant"])
        ops = storeops.gen_history(rng, 40)
        # metadata "stored with the data" is a write of its own kind (next to the data object)
        live = sorted(frozen.d)
        for _ in range(3):
            if live:
                f, a = rng.choice(live)
                ops.insert(rng.randrange(len(ops)), ["wmetad", f, a, "log", "m%d" % rng.randrange(3)])
        for _ in range(2):
            ops.insert(rng.randrange(len(ops)), ["rmeta", sf, sa, "log"])
        audit.start()
        flags = drive_ro(b, refs, vals, frozen, ops, out, "variant %s%s" % (VARIANTS[case["variant"]], ", damaged store" if damaged else ""),
                         judge=not damaged)
        audit.stop()
        judge_untouched(roots, snap, audit, out, "variant %s%s history %s" % (
            VARIANTS[case["variant"]], ", store with dangling / empty links" if damaged else "", json.dumps(ops)))
        if damaged:
            return
        if all(flags.values()):
            out["nontrivial"].append("ro:%d:%d" % (case["seed"], case["idx"]))
        out["sample"] = {"variant": list(VARIANTS[case["variant"]]), "prepopulated_entries": len(frozen.d),
                         "ops": ops[:8]}
        # function level: default cluster on the read-only backend
        run_function_level(sc, case, rng, out, roots)


def judge_untouched(roots, snap, audit, out, label):
    for r in roots:
        d = fsobs.diff(snap[r], fsobs.snapshot(r))
        out["obs"]["snapshots_compared"] += 1
        if d:
            out["viol"].append({"sig": "storage path modified through a read-only backend",
                                "msg": "%s: %s" % (label, d[:5])})
    out["obs"]["audit_reads_seen"] += len(audit.reads)
    if audit.mutations:
        out["viol"].append({"sig": "mutating filesystem operation issued under a read-only storage path",
                            "msg": "%s: %s" % (label, audit.mutations[:5])})


def run_function_level(sc, case, rng, out, roots_unused):
    """Calls through a cluster whose storage is read-only: memoized arguments are served, others are
    computed on every call and nothing is written."""
    import twosigma.memento as m
    from vf import ffuncs
    from vf.recorder import REC

    flag, cache, meta = VARIANTS[case["variant"]]
    mb = {None: None, "4KiB": 4 * env.KIB, "1MiB": 1}[cache]
    froot = sc.path("fl")
    mroot = sc.path("flmeta") if meta else None
    w = env.fs_backend(froot, metadata_path=mroot)
    env.set_env(sc.path("envw"), default_storage=w)
    ffuncs.TABLE.update({"a": 11, "b": "bee", "e": ValueError("boom"), "n": None, "z": [1, 2]})
    assert ffuncs.produce("a") == 11 and ffuncs.produce("b") == "bee" and ffuncs.produce("n") is None
    try:
        ffuncs.produce("e")
    except ValueError:
        pass
    ffuncs.produce.put_metadata("log", b"hello", "a")
    roots = [froot] + ([mroot] if mroot else [])
    snap = {r: fsobs.snapshot(r) for r in roots}
    if flag == "arg_over_dump":
        from twosigma.memento.storage_filesystem import FilesystemStorageBackend

        ro = FilesystemStorageBackend(config=dict(w.to_dict()), memory_cache_mb=mb, read_only=True)
    else:
        ro = env.fs_backend(froot, metadata_path=mroot, cache_mb=mb, read_only=True)
    env.set_env(sc.path("envr"), default_storage=ro)
    audit = fsobs.AuditLog(roots)
    audit.start()
    label = "function level, variant %s" % (VARIANTS[case["variant"]],)
    def on_disk():  # a result that stages its values in a directory of its own while it is being built
        from twosigma.memento.storage_filesystem import OnDiskPartition

        p = OnDiskPartition()
        p["k"] = [1, 2]
        p["s"] = "staged"
        return p

    ffuncs.TABLE["od"] = on_disk
    kept = []  # results stay alive until the storage paths have been looked at
    seq = [rng.choice(["a", "b", "n", "e", "z", "z", "od"]) for _ in range(12)]
    for cid in seq:
        mark = REC.mark()
        try:
            got = ("ret", ffuncs.produce(cid))
        except ValueError as e:
            got = ("raise", "ValueError")
        except Exception as e:
            got = ("raise", type(e).__name__ + ": " + str(e)[:100])
        ran = len(REC.since(mark))
        out["obs"]["ro_function_calls"] += 1
        memoized = cid not in ("z", "od")
        kept.append(got)
        exp = ("raise", "ValueError") if cid == "e" else ("ret", on_disk() if cid == "od" else ffuncs.TABLE[cid])
        if got[0] != exp[0] or (got[0] == "ret" and not domain.eq(got[1], exp[1])) or (got[0] == "raise" and got[1] != exp[1]):
            out["viol"].append({"sig": "call through a read-only cluster returns a wrong outcome",
                                "msg": "%s: produce(%r) gave %s" % (label, cid, domain.describe(got))})
        if ran != (0 if memoized else 1):
            out["viol"].append({"sig": "body execution count wrong under a read-only cluster",
                                "msg": "%s: produce(%r) memoized=%s body ran %d times" % (label, cid, memoized, ran)})
    # mutating function-level operations must be rejected
    for name, fn in (("forget", lambda: ffuncs.produce.forget("a")),
                     ("forget_all", lambda: ffuncs.produce.forget_all()),
                     ("forget_cluster", lambda: m.forget_cluster()),
                     ("put_metadata", lambda: ffuncs.produce.put_metadata("log", b"x", "a")),
                     ("put_metadata(store_with_data)", lambda: ffuncs.produce.put_metadata("log2", b"x", "b", store_with_data=True))):
        try:
            fn()
            out["viol"].append({"sig": "%s through a read-only cluster is not rejected" % name, "msg": label})
        except ValueError:
            out["obs"]["ro_function_rejections"] += 1
        except Exception as e:
            out["viol"].append({"sig": "%s through a read-only cluster fails with something other than a rejection" % name,
                                "msg": "%s: %r" % (label, e)})
    if ffuncs.produce.get_metadata("log", args=("a",)) != b"hello":
        out["viol"].append({"sig": "metadata read stops working under a read-only cluster", "msg": label})
    audit.stop()
    judge_untouched(roots, snap, audit, out, label + " calls %s" % seq)


def run_ro_memory(case, out):
    rng = core.rng_for(case["seed"], ID, "mem", case["idx"])
    refs, vals = storeops.Refs("c"), storeops.values()
    b = env.mem_backend()
    frozen = storeops.Model()
    for op in [op for op in storeops.gen_history(rng, 25) if op[0] != "forget_all"]:
        before = dict(frozen.d)
        frozen.apply(op)
        storeops.apply_backend(b, refs, vals, op, model_before=before)
    b.read_only = True  # same object, now read-only (its content is the frozen dictionary)
    import copy

    shadow = (copy.copy(dict(b.result)), {k: dict(v) for k, v in b.mementos.items() if v},
              {k: dict(v) for k, v in b.metadata.items() if v})
    ops = storeops.gen_history(rng, 40)
    flags = drive_ro(b, refs, vals, frozen, ops, out, "read-only memory backend")
    now = (dict(b.result), {k: dict(v) for k, v in b.mementos.items() if v},
           {k: dict(v) for k, v in b.metadata.items() if v})
    out["obs"]["snapshots_compared"] += 1
    if now[0].keys() != shadow[0].keys() or now[1] != shadow[1] or now[2] != shadow[2]:
        out["viol"].append({"sig": "read-only memory backend content changed", "msg": json.dumps(ops)})
    if all(flags.values()):
        out["nontrivial"].append("mem:%d:%d" % (case["seed"], case["idx"]))
    out["sample"] = {"kind": "ro_memory", "ops": ops[:8]}


def run_null(case, out):
    import twosigma.memento as m
    from twosigma.memento.runner_null import NullRunnerBackend
    from twosigma.memento.storage_null import NullStorageBackend
    from vf import ffuncs
    from vf.recorder import REC

    rng = core.rng_for(case["seed"], ID, "null", case["idx"])
    ffuncs.TABLE.update({"a": 11, "b": "bee", "e": ValueError("boom"), "n": None, "z": [1, 2]})
    with env.Scratch() as sc:
        # null storage: nothing is ever reported memoized, bodies run every time
        ns = NullStorageBackend()
        env.set_env(sc.path("e1"), default_storage=ns)
        refs, vals = storeops.Refs("c"), storeops.values()
        for op in storeops.gen_history(rng, 30):
            got = storeops.apply_backend(ns, refs, vals, op)
            out["obs"]["null_storage_ops"] += 1
            if op[0] in ("read", "get") and got != "absent" or op[0] == "ismem" and got is not False \
                    or op[0] == "list_fns" and got != [] or op[0] == "rmeta" and got is not None:
                out["viol"].append({"sig": "null storage reports something as memoized",
                                    "msg": "op %s answered %s" % (op, storeops.show(got))})
        seq = [rng.choice("abnz") for _ in range(8)]
        for cid in seq:
            mark = REC.mark()
            got = ffuncs.produce(cid)
            out["obs"]["null_storage_calls"] += 1
            if len(REC.since(mark)) != 1 or not domain.eq(got, ffuncs.TABLE[cid]):
                out["viol"].append({"sig": "null storage served or lost a call",
                                    "msg": "produce(%r): body ran %d times, value %s"
                                    % (cid, len(REC.since(mark)), domain.describe(got))})
            if ffuncs.produce.memento(cid) is not None:
                out["viol"].append({"sig": "null storage reports something as memoized", "msg": "memento(%r)" % cid})
        # ... also within one invocation: a body that makes the same nested call twice (and twice more in one batch) has it
        # computed every time - nothing computed earlier in the same call tree is "memoized"
        for cid in "az":
            mark = REC.mark()
            got = ffuncs.twice(cid)
            ran = [ev[0] for ev in REC.since(mark)]
            out["obs"]["null_storage_calls"] += 1
            out["obs"]["null_storage_repeated_nested_calls"] += 1
            want = ffuncs.TABLE[cid]
            if ran.count("produce") < 3 or not domain.eq(got, [want, want, [want, want]]):
                out["viol"].append({"sig": "null storage served or lost a call",
                                    "msg": "twice(%r): the nested call made four times (two of them as duplicates of one batch) ran its "
                                           "body %d times (at least 3 expected), value %s" % (cid, ran.count("produce"), domain.describe(got))})
        # null runner: no body runs, memoized or not
        st = env.fs_backend(sc.path("nr"))
        env.set_env(sc.path("e2"), default_storage=st)
        ffuncs.produce("a")
        env.set_env(sc.path("e2"), default_storage=st, runner=NullRunnerBackend())
        for cid in [rng.choice("abnz") for _ in range(6)]:
            mark = REC.mark()
            try:
                got = ("ret", ffuncs.produce(cid))
            except RuntimeError:
                got = ("refused",)
            out["obs"]["null_runner_calls"] += 1
            if len(REC.since(mark)) != 0:
                out["viol"].append({"sig": "a body ran under the null runner", "msg": "produce(%r)" % cid})
            if got[0] == "ret" and not (cid == "a" and got[1] == 11):
                out["viol"].append({"sig": "null runner produced a result for a call that was never computed",
                                    "msg": "produce(%r) -> %s" % (cid, domain.describe(got))})
        mark = REC.mark()
        try:
            ffuncs.produce.call_batch([{"case_id": "b"}, {"case_id": "z"}])
        except RuntimeError:
            pass
        if REC.since(mark):
            out["viol"].append({"sig": "a body ran under the null runner", "msg": "call_batch"})
        # ... also when the store holds a memento whose result cannot be read any more (data object gone, link
        # empty, memento file cut short): whatever the call answers, no body runs
        st2 = env.fs_backend(sc.path("nr2"), cache_mb=rng.choice([None, 16]))
        env.set_env(sc.path("e3"), default_storage=st2)
        for cid in "abn":
            ffuncs.produce(cid)
        files = []
        for d, _, fs in os.walk(sc.path("nr2")):
            files += [os.path.join(d, f) for f in fs]
        rng.shuffle(files)
        aim = rng.choice(["data objects", "data links", "anything"])
        if aim != "anything":  # the mementos stay, what they point to goes
            sub = os.sep + "c" + os.sep
            pick = [f for f in files if sub in f and ((".versions" in f) == (aim == "data objects"))]
            files = pick + [f for f in files if f not in pick]
        for pth in files[: rng.randint(1, 4)]:
            if rng.random() < 0.5:
                os.remove(pth)
            else:
                open(pth, "w").close()
        env.set_env(sc.path("e3"), default_storage=env.fs_backend(sc.path("nr2"), cache_mb=rng.choice([None, 16])),
                    runner=NullRunnerBackend())
        for cid in list("abnz") + ["a"]:
            mark = REC.mark()
            try:
                ffuncs.produce(cid)
            except Exception:
                pass
            out["obs"]["null_runner_calls"] += 1
            out["obs"]["null_runner_calls_on_a_damaged_store"] += 1
            if REC.since(mark):
                out["viol"].append({"sig": "a body ran under the null runner",
                                    "msg": "produce(%r) on a store whose files %s were removed / emptied" % (
                                        cid, [os.path.relpath(x, sc.path("nr2"))[-60:] for x in files[:4]])})
        # a function of a cluster with the ordinary runner calls, in its body, a function of a cluster whose runner is the
        # null runner: the nested call is refused like any other, its body does not run, nothing appears in its store
        import twosigma.memento as m

        nested_store = env.fs_backend(sc.path("nested_c"))
        repo = m.ConfigurationRepository(name="nested", clusters={
            "c": m.FunctionCluster(name="c", storage=nested_store, runner=NullRunnerBackend())})
        e4 = m.Environment(name="vf", base_dir=sc.path("e4"), repos=[repo])
        e4.default_cluster = m.FunctionCluster(name="default", storage=env.fs_backend(sc.path("nested_default")))
        m.Environment.set(e4)
        snap = fsobs.snapshot(sc.path("nested_c")) if os.path.isdir(sc.path("nested_c")) else {}
        for cid in [rng.choice("abz") for _ in range(3)]:
            mark = REC.mark()
            try:
                got = ffuncs.calls_c(cid)
            except Exception as e:
                got = ["raise", type(e).__name__]
            ran = [ev[0] for ev in REC.since(mark)]
            out["obs"]["null_runner_calls"] += 1
            out["obs"]["nested_calls_into_a_null_runner_cluster"] += 1
            if "cproduce" in ran:
                out["viol"].append({"sig": "a body ran under the null runner",
                                    "msg": "cproduce(%r), a function of a null-runner cluster called from the body of a function of "
                                           "another cluster: bodies run %s, outer result %s" % (cid, ran, domain.describe(got))})
        after = fsobs.snapshot(sc.path("nested_c")) if os.path.isdir(sc.path("nested_c")) else {}
        if after != snap:
            out["viol"].append({"sig": "a body ran under the null runner",
                                "msg": "the store of the null-runner cluster changed: %s" % sorted(set(after) - set(snap))[:4]})
        out["nontrivial"].append("null:%d:%d" % (case["seed"], case["idx"]))
        out["sample"] = {"kind": "null", "calls": seq}


STRACE_CHILD = r"""
import json, sys
sys.path.insert(0, %(verif)r)
from vf import env, storeops
from checks import c19
import collections
case = json.loads(sys.argv[1]); data = sys.argv[2]
class SC:  # the pre-populated store of the parent
    root = data
    def path(self, *p):
        import os; return os.path.join(data, *p)
refs, vals = storeops.Refs("c"), storeops.values()
b = c19.open_ro(SC(), case["variant"])
for op in case["ops"]:
    storeops.apply_backend(b, refs, vals, op)
"""


def run_strace(case, out):
    """A real interpreter drives the read-only backend under strace; mutating syscalls on the storage
    paths are looked for in the syscall log (an observer independent of CPython's audit coverage)."""
    rng = core.rng_for(case["seed"], ID, "strace", case["idx"])
    with env.Scratch() as sc:
        refs, vals = storeops.Refs("c"), storeops.values()
        w = open_ro(sc, case["variant"], writable=True)
        for op in [op for op in storeops.gen_history(rng, 25) if op[0] != "forget_all"]:
            storeops.apply_backend(w, refs, vals, op)
        ops = storeops.gen_history(rng, 30)
        roots = [sc.path("data"), sc.path("meta")]
        damaged = bool(case.get("damaged")) and damage(roots, rng, out) > 0
        snap = {r: fsobs.snapshot(r) for r in roots}
        script = sc.path("child.py")
        with open(script, "w") as f:
            f.write(STRACE_CHILD % {"verif": core.HERE})
        log = sc.path("strace.log")
        p = subprocess.run(["strace", "-f", "-o", log, "-e",
                            "trace=openat,open,creat,mkdir,mkdirat,unlink,unlinkat,rename,renameat,renameat2,rmdir,truncate,ftruncate,link,linkat,symlink,symlinkat,chmod,fchmodat,utimensat",
                            core.PY, script, json.dumps({"variant": case["variant"], "ops": ops}), sc.root],
                           capture_output=True, text=True, timeout=200)
        if p.returncode != 0:
            raise RuntimeError("strace child failed: " + p.stderr[-500:])
        bad = []
        n = 0
        with open(log) as f:
            for line in f:
                if not any(r in line for r in roots):
                    continue
                n += 1
                call = line.split("(", 1)[0].split()[-1]
                if call in ("openat", "open"):
                    if any(fl in line for fl in ("O_WRONLY", "O_RDWR", "O_CREAT", "O_TRUNC", "O_APPEND")):
                        bad.append(line.strip())
                elif " = -1 " not in line or call not in ("mkdir", "mkdirat"):
                    bad.append(line.strip())
        out["obs"]["strace_syscalls_on_store_seen"] += n
        out["obs"]["strace_runs"] += 1
        if bad:
            out["viol"].append({"sig": "mutating system call on a read-only storage path",
                                "msg": "variant %s: %s" % (VARIANTS[case["variant"]], bad[:4])})
        for r in roots:
            if fsobs.diff(snap[r], fsobs.snapshot(r)):
                out["viol"].append({"sig": "storage path modified through a read-only backend",
                                    "msg": "strace run: %s" % fsobs.diff(snap[r], fsobs.snapshot(r))[:4]})
        out["nontrivial"].append("strace:%d:%d" % (case["seed"], case["idx"]))
        out["sample"] = {"kind": "strace", "syscalls_on_store": n}


def run_case(case):
    out = {"viol": [], "nontrivial": [], "obs": collections.Counter()}
    {"ro": run_ro, "ro_memory": run_ro_memory, "null": run_null, "strace": run_strace}[case["kind"]](case, out)
    out["obs"] = dict(out["obs"])
    out["viol"] = out["viol"][:6]
    return out


def conclude(agg):
    return core.first(core.need(agg, "ro_ops", 2000), core.need(agg, "snapshots_compared", 100),
                      core.need(agg, "audit_reads_seen", 100), core.need(agg, "ro_function_calls", 100),
                      core.need(agg, "null_runner_calls", 20), core.need(agg, "null_runner_calls_on_a_damaged_store", 20), core.need(agg, "null_storage_calls", 20),
                      core.need(agg, "links_damaged_before_opening_read_only", 40), core.need(agg, "ro_ops_on_damaged_stores", 500)), {}
