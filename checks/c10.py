"""C10 — provenance is exact and independent of what was already memoized.

Monitor: the stored invocation / resource / dependency records of every (re)computed call.
Oracle: closed form computed from the generated call-tree data (vf.trees.simulate), argument
hashes by the documented algorithm; invariance over subsets of sub-calls memoized beforehand."""
import collections
import itertools
import json
import os

from vf import core, domain, env, procs, trees

ID = "C10"
LEVEL = "exploration"
RULE = ("generated call DAGs of 2-7 nodes over 6 memento functions (one in a named cluster) with direct, "
        "keyword, partial, function-valued-argument and batch sub-calls (duplicates included), resource handles, "
        "failing (memoized) and not-to-be-memoized sub-calls caught by the parent; for each tree every subset "
        "(<=5 memoizable entries; 16 sampled subsets beyond) of sub-calls is left memoized while the rest is "
        "forgotten, then the root is invoked singly or as a batch on filesystem / filesystem+cache stores and "
        "the records of every recomputed call are compared with the closed form; non-trivial = distinct "
        "(tree, subset) runs in which >=1 sub-call was served from the store and >=1 was recomputed"
        "; some runs open the named cluster's store read-only"
        '; rounds 7-9: trees evaluated by a worker thread, aimed batches over two nodes of one function, a third of the trees under context arguments attached at the root and at inner edges'
        '; rounds 10-11: calls that hand the child a list which the caller changes in place afterwards'
        '; round 12: sub-calls (single and batched) whose result the body ignores'
        '; round 14: function values handed over and never applied'
        '; round 15: resources looked at a second time in the same body'
        '; round 16: eight histories in which a callee is released under a second explicit version between a memoized sub-call and its caller\'s run')
ASSUMPTIONS = ["the closed form lists every memento call a body makes, in program order, duplicates included, "
               "whether it returned, raised a memoized exception or a not-to-be-memoized one",
               "explicitly versioned functions are used so that no dependency validation interferes"]
TIMEOUT = 600


def cases(tier, seed):
    n = 90 if tier == "quick" else 3000
    for i in range(n):
        yield {"seed": seed, "idx": i}
    for i in range(8):
        yield {"kind": "versions", "seed": seed, "idx": i}


def versions_child(arg):
    """A sub-call memoized while its callee had one version is found in the store by a caller that reaches the callee's
    next version as well: both versions were invoked beneath that caller."""
    import twosigma.memento as m
    from vf import tfuncs

    store = env.mem_backend() if arg["store"] == "memory" else env.fs_backend(os.path.join(arg["root"], "d"), cache_mb=arg["cache"])
    env.set_env(os.path.join(arg["root"], "env"), default_storage=store, clusters={"c": env.mem_backend()})
    tid = "TV"
    tfuncs.TREES[tid] = {"id": tid, "nodes": [{"fn": 0, "steps": [["call", 1, 1], ["call", 2, 2]] if arg["order"] else [["call", 2, 2], ["call", 1, 1]]},
                                             {"fn": 1, "steps": [["call", 2, 3]]}, {"fn": 2, "steps": []}, {"fn": 2, "steps": []}]}
    tfuncs.t1(tid, 1)
    # the callee is released under another explicit version (its definition is run again in this process)
    new = m.memento_function(version="t2")(tfuncs.t2.fn)
    tfuncs.FUN.fns[2] = new
    tfuncs.t2 = new
    tfuncs.t0(tid, 0)
    return {"root": record_of(tfuncs.t0.memento(tid, 0)), "inner": record_of(tfuncs.t1.memento(tid, 1))}


def run_versions(case):
    out = {"viol": [], "nontrivial": [], "obs": collections.Counter(), "sets": {"step_kinds": set()}}
    with env.Scratch() as sc:
        arg = {"root": sc.path("v"), "store": ["fs", "memory"][case["idx"] % 2], "cache": [None, 16][(case["idx"] // 2) % 2],
               "order": (case["idx"] // 4) % 2}
        res = procs.in_child(versions_child, arg)
        out["obs"]["histories_with_two_versions_of_a_callee"] += 1
        want = {"root": ["vf.tfuncs:t0#t", "vf.tfuncs:t1#t", "vf.tfuncs:t2#t", "vf.tfuncs:t2#t2"], "inner": ["vf.tfuncs:t1#t", "vf.tfuncs:t2#t"]}
        for who in ("root", "inner"):
            out["obs"]["records_compared"] += 1
            if res[who]["deps"] != want[who]:
                out["viol"].append({"sig": "recorded dependency set differs from the functions invoked transitively",
                                    "msg": "a callee (t2) released under a second version between a memoized sub-call and its caller's run (%s): "
                                           "%s recorded %s expected %s" % (arg, who, res[who]["deps"], want[who])})
        out["nontrivial"].append("versions:%d" % case["idx"])
    out["obs"] = dict(out["obs"])
    out["sets"] = {k: sorted(v) for k, v in out["sets"].items()}
    return out


def fn_of(e):
    from vf import tfuncs

    return tfuncs.FUN.fns[e.fn]


def efn(e):
    """The function of an entry with the entry's effective context arguments attached."""
    f = fn_of(e)
    return f.with_context_args(dict(e.ctx)) if e.ctx else f


def call_args(e, tid):
    from vf import tfuncs

    args = [tid, e.node]
    if e.fnarg is not None:
        args.append(tfuncs.FUN.fns[e.fnarg.i])
    return args


def record_of(memento):
    im = memento.invocation_metadata
    return {"invocations": [(x.fn_reference.qualified_name, x.arg_hash) for x in im.invocations],
            "resources": [(r.resource_type, r.url, r.version) for r in im.resources],
            "deps": sorted({r.qualified_name for r in memento.function_dependencies})}


def expected_of(e):
    return {"invocations": list(e.invocations), "resources": list(e.resources), "deps": sorted(e.deps)}


def run_case(case):
    if case.get("kind") == "versions":
        return run_versions(case)
    from vf import tfuncs
    from vf.recorder import REC

    out = {"viol": [], "nontrivial": [], "obs": collections.Counter(), "sets": {"step_kinds": set()}}
    rng = core.rng_for(case["seed"], ID, case["idx"])
    tid = "T%d_%d" % (case["seed"], case["idx"])
    # every third tree runs under context arguments attached at the root, with calls that attach their own at inner edges
    # (the effective context of a call is part of its argument hash, hence of what its caller records)
    ctx_mode = case["idx"] % 3 == 1
    # ... and every third tree contains calls that hand the child a list which the caller changes in place afterwards
    mut_mode = case["idx"] % 3 == 2
    # ... and the remaining third contains sub-calls (single and batched) whose result the body ignores
    ign_mode = case["idx"] % 3 == 0
    tree = trees.gen_tree(rng, tid, aimed_batch=case["idx"] % 2 == 0, with_context=ctx_mode, with_mut=mut_mode, with_ignore=ign_mode)
    root_ctx = rng.choice([{"tenant": 1}, {"asof": "2020-01-02", "k": [1, 2]}, {"tenant": "x", "zone": None}]) if ctx_mode else None
    tfuncs.TREES[tid] = tree
    for nd in tree["nodes"]:
        for s in nd["steps"]:
            out["sets"]["step_kinds"].add(s[0])
        if nd["fail"]:
            out["sets"]["step_kinds"].add("fail:" + nd["fail"])
    entries = trees.simulate(tree, root_ctx=root_ctx)
    out["obs"]["trees_run_under_context_arguments"] += int(ctx_mode)
    out["obs"]["trees_with_arguments_changed_in_place_after_the_call"] += int(mut_mode and any(s_[0] == "mutcall" for nd_ in tree["nodes"] for s_ in nd_["steps"]))
    keys = list(entries)
    root = entries[keys[0]]
    memoizable = [k for k in keys[1:] if entries[k].fail != "transient"]
    if len(memoizable) <= 5:
        subsets = [set(c) for r in range(len(memoizable) + 1) for c in itertools.combinations(memoizable, r)]
        exhaustive = True
    else:
        subsets = [set(), set(memoizable)] + [set(k for k in memoizable if rng.random() < 0.5) for _ in range(14)]
        exhaustive = False
    out["obs"]["trees_with_all_subsets"] += int(exhaustive)

    def fail(sig, msg):
        if len(out["viol"]) < 8:
            out["viol"].append({"sig": sig, "msg": msg + "; tree " + json.dumps(tree)[:1500]})

    with env.Scratch() as sc:
        for si, S in enumerate(subsets):
            cache = (4 * env.KIB if si % 3 == 1 else 16) if si % 2 else None
            env.set_env(sc.path("env%d" % si), default_storage=env.fs_backend(sc.path("d%d" % si), cache_mb=cache),
                        clusters={"c": env.fs_backend(sc.path("c%d" % si), cache_mb=cache)})
            batch_mode = bool(si % 4 >= 2)

            def invoke_root_here():
                f = efn(root)
                try:
                    if batch_mode:
                        f.call_batch([{"tree": tid, "node": 0}], raise_first_exception=False)
                    else:
                        f(tid, 0)
                except Exception:
                    pass

            def invoke_root():
                if si % 4 == 1:  # the whole tree is evaluated by a worker thread (not the thread that imported the functions)
                    import threading

                    t = threading.Thread(target=invoke_root_here)
                    t.start()
                    t.join()
                    out["obs"]["runs_on_a_worker_thread"] += 1
                else:
                    invoke_root_here()

            invoke_root()
            # records right after the cold run (nothing was memoized beforehand)
            if si == 0:
                compare_all(out, fail, entries, entries.keys(), tid, "cold store", batch_mode)
            # leave exactly S memoized
            for k in keys:
                if k not in S:
                    e = entries[k]
                    if e.fail != "transient":
                        efn(e).forget(*call_args(e, tid), **(e.extra or {}))
            unreadable = False
            if si % 5 == 4 and S:
                # the sub-calls left memoized keep their mementos but lose their result data (a store copied without
                # its data directory, a pruned volume): the run falls back to recomputing them
                import shutil

                for droot in (sc.path("d%d" % si), sc.path("c%d" % si)):
                    shutil.rmtree(os.path.join(droot, "c", ".versions"), ignore_errors=True)
                env.set_env(sc.path("env%db" % si), default_storage=env.fs_backend(sc.path("d%d" % si), cache_mb=cache),
                            clusters={"c": env.fs_backend(sc.path("c%d" % si), cache_mb=cache)})
                unreadable = True
                out["obs"]["subset_runs_with_unreadable_results"] += 1
            ro_c = (not unreadable) and si % 7 == 3
            if ro_c:
                # the named cluster's store is opened read-only for this run: its calls that are not in the store are
                # computed and not recorded, which must not change what their callers record
                env.set_env(sc.path("env%dr" % si), default_storage=env.fs_backend(sc.path("d%d" % si), cache_mb=cache),
                            clusters={"c": env.fs_backend(sc.path("c%d" % si), cache_mb=cache, read_only=True)})
            mark = REC.mark()
            invoke_root()
            ran = {(ev[1][0], ev[1][2], ev[1][4]) for ev in REC.since(mark)}
            recomputed = [k for k in keys if (entries[k].fn, entries[k].node, entries[k].fnarg.i if entries[k].fnarg else None)
                          in ran and entries[k].fail != "transient"]
            if (ctx_mode or mut_mode) and not unreadable:
                # bodies never see context arguments, so the recorder cannot tell two entries apart that differ in nothing
                # but their effective context: of those, the ones whose callers all were served from the store did not run
                reached, stack = set(), [keys[0]]
                while stack:
                    k = stack.pop()
                    if k not in reached:
                        reached.add(k)
                        stack += [c for c in entries[k].children if c not in S or entries[c].fail == "transient"]
                recomputed = [k for k in recomputed if k in reached]
            out["obs"]["subset_runs"] += 1
            served = [k for k in S if any(k in entries[p].children for p in recomputed)]
            if served and len(recomputed) > 1:
                out["nontrivial"].append("%s:%d" % (tid, si))
            out["obs"]["sub_calls_served_from_store"] += len(served)
            if ro_c:
                if any(entries[k].fn == 4 for k in recomputed):
                    out["obs"]["subset_runs_with_calls_computed_in_a_read_only_cluster"] += 1
                recomputed = [k for k in recomputed if entries[k].fn != 4]  # (those have no record to look at)
            compare_all(out, fail, entries, recomputed, tid,
                        "memoized beforehand: %s%s (%s, %s)" % (sorted(entries[k].node for k in S),
                                                               ", their result data removed" if unreadable else
                                                               (", cluster c read-only" if ro_c else ""),
                                                               "batch" if batch_mode else "single",
                                                               "cache" if cache else "no cache"), batch_mode)
        out["sample"] = {"tree": tree, "subsets": len(subsets)}
    out["obs"] = dict(out["obs"])
    out["sets"] = {k: sorted(v) for k, v in out["sets"].items()}
    return out


def compare_all(out, fail, entries, which, tid, label, batch_mode):
    for k in which:
        e = entries[k]
        if e.fail == "transient":
            continue
        m = efn(e).memento(*call_args(e, tid), **(e.extra or {}))
        if m is None:
            fail("a computed call has no memento", "%s node %d (%s)" % (label, e.node, trees.QN[e.fn]))
            continue
        got, want = record_of(m), expected_of(e)
        out["obs"]["records_compared"] += 1
        for field, sig in (("invocations", "recorded invocations differ from the calls the body made"),
                           ("resources", "recorded resources differ from the handles the body obtained"),
                           ("deps", "recorded dependency set differs from the functions invoked transitively")):
            if got[field] != want[field]:
                fail(sig, "%s: node %d (%s): recorded %s expected %s" % (label, e.node, trees.QN[e.fn],
                                                                       core.short(got[field], 500), core.short(want[field], 500)))


def conclude(agg):
    return core.first(core.need(agg, "records_compared", 300), core.need(agg, "sub_calls_served_from_store", 100), core.need(agg, "subset_runs_with_unreadable_results", 30), core.need(agg, "subset_runs_with_calls_computed_in_a_read_only_cluster", 5),
                      None if len(agg.sets.get("step_kinds", ())) >= 8 else "too few step kinds"), {}
