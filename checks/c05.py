"""C05 — every storage backend behaves like one dictionary of memoized calls.

Monitor: the answer of every public StorageBackend operation on four live back-ends driven
in lock-step.  Oracle: a plain dictionary model (vf.storeops.Model)."""
import hashlib
import json

from vf import core, domain, env, storeops

ID = "C05"
LEVEL = "exploration"
RULE = ("random operation histories (memoize with/without key override, get, read, is_memoized, "
        "forget call/function/everything, list functions, list mementos, write/read metadata) over "
        "3 functions whose stored names are prefixes of each other x 3 argument values x 13 result "
        "values (small, 3 KB, 6 KB = oversize for the small cache, None, frames, arrays), executed "
        "on filesystem / filesystem+4KiB cache / filesystem+1MiB cache+separate metadata path / "
        "memory back-ends in lock-step, in a named and in the default cluster; thorough adds every "
        "history of length<=3 over a reduced alphabet; a history is non-trivial when at least one read "
        "was served a value and at least one forget removed a live entry; distinct = distinct op lists"
        '; also: recorded failures and partitions with equal values as values, reads through the memento of an earlier write, one metadata key written both ways'
        '; rounds 7-9: look-ups of several calls given as a generator, listings with limit 0..3, metadata stored with the data across re-memoization, partitions with entries inherited from a merge parent'
        '; round 12: every memoization hands over a memento of its own (look-ups must return the last one), the same result memoized twice'
        '; round 15: a call with with-data metadata forgotten and made again with the same result')
ASSUMPTIONS = [
    "answers are compared up to representation: truthiness of is_memoized, sets of qualified names / "
    "arg hashes for listings, type-aware value equality for results",
    "metadata is only written for calls that have a memento (the public put_metadata contract)",
]
TIMEOUT = 300

BACKENDS = ["fs", "fs+4KiB", "fs+1MiB+meta", "memory"]


def cases(tier, seed):
    n, length = (400, 25) if tier == "quick" else (20000, 40)
    for i in range(n):
        yield {"kind": "random", "seed": seed, "idx": i, "length": length,
               "cluster": "c" if i % 3 else "default"}
    if tier == "thorough":
        # small-scope exhaustive: all histories of length <= 3 over a reduced alphabet
        alpha = small_alphabet()
        import itertools
        chunk = []
        for L in (1, 2, 3):
            for combo in itertools.product(range(len(alpha)), repeat=L):
                chunk.append(list(combo))
                if len(chunk) == 200:
                    yield {"kind": "exhaustive", "combos": chunk, "cluster": "c"}
                    chunk = []
        if chunk:
            yield {"kind": "exhaustive", "combos": chunk, "cluster": "c"}


def small_alphabet():
    return [["memoize", 0, 0, "s0", None], ["memoize", 0, 0, "k6", None], ["memoize", 1, 0, "s0", None],
            ["memoize", 2, 1, "k3", "ovr/shared"], ["memoize", 0, 0, "none", "ovr/shared"],
            ["read", 0, 0], ["read", 1, 0], ["get", 2, 1], ["ismem", 0, 0], ["forget_call", 0, 0],
            ["forget_fn", 0], ["forget_fn", 1], ["forget_all"], ["list_fns"], ["list_mems", 0],
            ["wmeta", 0, 0, "log", "m1"], ["rmeta", 0, 0, "log"]]


def make_backends(sc, tag=""):
    return [
        ("fs", env.fs_backend(sc.path("a" + tag))),
        ("fs+4KiB", env.fs_backend(sc.path("b" + tag), cache_mb=4 * env.KIB)),
        ("fs+1MiB+meta", env.fs_backend(sc.path("c" + tag), cache_mb=1,
                                        metadata_path=sc.path("cmeta" + tag))),
        ("memory", env.mem_backend()),
    ]


def classify(op, expected, got):
    k = op[0]
    if isinstance(got, tuple) and got and got[0] == "raise":
        return "raises " + got[1]
    if k == "getmany":
        return "bulk look-up answers differ from the individual look-ups"
    if k == "list_mems_limit":
        return "a listing with a limit does not return min(limit, live) live entries"
    if k in ("list_fns", "list_mems"):
        return "lists entries that are not live" if len(got) > len(expected) else (
            "does not list a live entry" if len(got) < len(expected) else "lists wrong entries")
    if k in ("read", "get", "ismem"):
        e_abs = expected in ("absent", False)
        g_abs = got in ("absent", False)
        if e_abs and not g_abs:
            return "forgotten or never stored entry is reported"
        if g_abs and not e_abs:
            return "live entry is lost"
        return "read returns a value other than the last one written"
    return "wrong answer"


def run_history(ops, cluster, sc, tag, out):
    refs = storeops.Refs(cluster)
    vals = storeops.values()
    model = storeops.Model()
    backs = make_backends(sc, tag)
    dead = set()
    served, removed = 0, 0
    for step, op in enumerate(ops):
        before = dict(model.d)
        expected = model.apply(op)
        if op[0] == "read" and expected != "absent":
            served += 1
        if op[0].startswith("forget") and len(model.d) < len(before):
            removed += 1
        out["sets"]["model_states"].add(json.dumps(sorted((k, v["v"], sorted(v["meta"].items()), v["ovr"])
                                                          for k, v in model.d.items()), default=str))
        if op[0] == "reopen":  # new backend objects (cold caches, nothing in hand) over the same directories
            fresh = dict(make_backends(sc, tag))
            # mementos in hand belong to the backend object that handed them out: they go with it (the table is keyed by
            # id(), and a new backend may get the id of one that is gone)
            gone = {id(b) for name, b in backs if name != "memory"}
            refs.held = {k: m for k, m in refs.held.items() if k[0] not in gone}
            refs.older = {k: m for k, m in refs.older.items() if k[0] not in gone}
            backs = [(name, b if name == "memory" else fresh[name]) for name, b in backs]
            out["obs"]["stores_reopened"] = out["obs"].get("stores_reopened", 0) + 1
            continue
        for name, b in backs:
            if name in dead:
                continue
            got = storeops.apply_backend(b, refs, vals, op, model_before=before)
            out["obs"]["op:" + op[0]] = out["obs"].get("op:" + op[0], 0) + 1
            out["obs"]["answers_compared"] += 1
            if not storeops.answers_agree(op, expected, got, refs, vals):
                dead.add(name)
                out["viol"].append({
                    "sig": "%s: %s: %s" % (name if name == "memory" else "filesystem"
                                           + ("+cache" if "+" in name else ""), op[0],
                                           classify(op, expected, got)),
                    "msg": "backend %s, cluster %s, step %d op %s: model says %s, backend says %s; history so far: %s"
                           % (name, cluster, step, op, storeops.show(expected), storeops.show(got),
                              json.dumps(ops[: step + 1])),
                })
    return served, removed


def run_case(case):
    out = {"viol": [], "obs": {"answers_compared": 0, "histories": 0},
           "sets": {"model_states": set()}, "nontrivial": []}
    with env.Scratch() as sc:
        if case["kind"] == "random":
            rng = core.rng_for(case["seed"], ID, case["idx"])
            hist = [storeops.gen_history(rng, case["length"])]
        else:
            alpha = small_alphabet()
            hist = [[alpha[i] for i in combo] for combo in case["combos"]]
        for n, ops in enumerate(hist):
            served, removed = run_history(ops, case["cluster"], sc, str(n), out)
            out["obs"]["histories"] += 1
            if served and removed:
                out["nontrivial"].append(hashlib.sha1(json.dumps(ops).encode()).hexdigest()[:16])
        out["sample"] = {"cluster": case["cluster"], "ops": hist[0][:12]}
    out["sets"] = {k: sorted(v) for k, v in out["sets"].items()}
    return out


def conclude(agg):
    return core.first(core.need(agg, "answers_compared", 1000),
                      core.need(agg, "op:forget_fn", 10),
                      None if len(agg.nontrivial) >= 20 else "too few non-trivial histories"), {
        "exhaustive": False}
