"""C18 — declarative configuration is honoured, ordered, and reproducible from its dump.

Monitor: the *behaviour vector* of every configured backend / cluster (where files appear, whether
second reads touch the store for three value sizes, whether anything is written, whether forget is
rejected, whether a body runs), observed through tree snapshots and an audit hook.
Oracle: the behaviour vector of the backend built with the equivalent constructor arguments."""
import collections
import itertools
import json
import os

from vf import core, domain, env, fsobs, storeops

ID = "C18"
LEVEL = "exploration"
RULE = ("full matrix of metadata_path {absent, given} x memory_cache_mb {absent, 4 KiB, 1 MiB} x readonly {absent, "
        "false, true} x storage type {filesystem, memory, null} x runner {absent, local, null} x source form {inline "
        "dict via StorageBackend.create, FunctionCluster(config), repository JSON file, repository YAML file with "
        "jinja template parameters, environment JSON file with nested relative references}; each configured "
        "object's behaviour vector is compared with the one built from constructor arguments on a parallel "
        "directory tree; plus explicit-argument-overrides-file cases, repository priority orders with duplicated "
        "cluster names (all orders of 3 repositories, prepend/append; random histories of look-ups - hits and misses - interleaved with repositories appended / prepended later, live environment and its rebuilt dump), and Environment(env.to_dict()) dumps; "
        "non-trivial = distinct option combinations with at least one non-default option"
        '; clusters listed under a name other than their own, in all source forms'
        '; rounds 7-9: two live back-ends built from equal configurations observed side by side, every template rendered a second time with other values'
        '; rounds 10-11: dumps of the repository / environment objects as built from JSON files, YAML templates with parameters and nested files'
        "; round 12: the read-only flag written in YAML's other boolean spellings"
        '; round 13: repositories built with an explicit clusters argument'
        '; round 14: configuration files addressed absolutely / by bare name / by relative path'
        '; round 15: repositories that share a name in resolution histories'
        '; round 16: explicit but empty clusters= / repos= arguments')
ASSUMPTIONS = ["behaviour, not attributes, is compared: where files appear, whether reads of 3 value sizes hit a "
               "cache, whether writes happen, whether forget is rejected, whether a body runs"]
TIMEOUT = 600
FORMS = ["create", "cluster", "repo_json", "repo_yaml_template", "env_json_nested"]
CACHES = {None: None, "4KiB": 4 * env.KIB, "1MiB": 1}


def cases(tier, seed):
    combos = []
    for meta, cache, ro in itertools.product([False, True], [None, "4KiB", "1MiB"], [None, False, True]):
        for form in FORMS:
            for runner in ([None, "null"] if form not in ("create",) else [None]):
                combos.append({"kind": "matrix", "stype": "filesystem", "meta": meta, "cache": cache, "ro": ro,
                               "form": form, "runner": runner})
    for stype in ("memory", "null"):
        for ro in (None, True):
            for form in FORMS:
                combos.append({"kind": "matrix", "stype": stype, "meta": False, "cache": None, "ro": ro, "form": form,
                               "runner": "local" if form != "create" else None})
    rng = core.rng_for(seed, ID)
    if tier == "quick":
        rng.shuffle(combos)
    for i, c in enumerate(combos):
        yield dict(c, idx=i)
    for i, perm in enumerate(itertools.permutations(range(3))):
        for extra in ("none", "prepend", "append"):
            yield {"kind": "order", "perm": list(perm), "extra": extra, "idx": i}
    for i in range(24 if tier == "quick" else 200):  # one configuration dictionary used for several back-ends
        yield {"kind": "shared_dict", "idx": i, "seed": seed}
    for i in range(60 if tier == "quick" else 1500):  # look-ups interleaved with repositories added later
        yield {"kind": "resolve_history", "idx": i, "seed": seed}
    for i in range(40 if tier == "quick" else 600):  # clusters listed under a name other than their own, all source forms
        yield {"kind": "listed", "idx": i, "seed": seed}
    for i in range(12 if tier == "quick" else 200):  # an explicit clusters= argument over a configuration that lists clusters
        yield {"kind": "repo_args", "idx": i, "seed": seed}
    for i in range(256):  # which options the configuration has x which options are given explicitly
        yield {"kind": "override", "idx": i, "seed": seed, "cfg_mask": i >> 4, "arg_mask": i & 15}
        if i & 15:  # ... and the same with explicit values that switch the option off
            yield {"kind": "override", "idx": i, "seed": seed, "cfg_mask": i >> 4, "arg_mask": i & 15, "off": True}
    # dumps of environments whose repository / cluster came from an inline object, a JSON file, a YAML template rendered
    # with parameters, or nested files
    dumps = [c for c in combos if c["form"] in ("cluster", "repo_json", "repo_yaml_template", "env_json_nested")]
    if tier != "thorough":
        by_form = {}
        for c in dumps:
            by_form.setdefault(c["form"], []).append(c)
        dumps = [c for form in sorted(by_form) for c in by_form[form][::max(1, len(by_form[form]) // 16)][:16]]
    for i, c in enumerate(dumps):
        yield dict(c, kind="dump", idx=i)


# ---------------------------------------------------------------- behaviour vector
_AUDIT = {}


def audit_for(roots):
    a = fsobs.AuditLog(roots)
    return a


def behaviour(storage, dirs, slot, audit):
    """Observed behaviour of a storage backend. dirs: candidate directories (data, meta)."""
    refs, vals = storeops.Refs("c"), storeops.values()
    vec = {"type": storage.storage_type}
    before = [fsobs.snapshot(d) for d in dirs]
    r = storeops.apply_backend(storage, refs, vals, ["memoize", slot, 0, "s0", None])
    vec["memoize_raises"] = isinstance(r, tuple)
    after = [fsobs.snapshot(d) for d in dirs]
    writes = []
    for i, (b, a) in enumerate(zip(before, after)):
        new = [k for k in a if k not in b]
        if any(k.startswith("c" + os.sep) or k.startswith("c/") for k in new):
            writes.append("data->dir%d" % i)
        if any(k.startswith("m" + os.sep) or k.startswith("m/") for k in new):
            writes.append("meta->dir%d" % i)
    vec["writes"] = sorted(writes)
    vec["memoized"] = bool(storage.is_memoized(refs.refs[slot], refs.ah[slot][0]))
    cached = []
    if vec["memoized"] and storage.storage_type == "filesystem":
        for a_i, vk in ((1, "s1"), (2, "k3")):
            storeops.apply_backend(storage, refs, vals, ["memoize", slot, a_i, vk, None])
        storeops.apply_backend(storage, refs, vals, ["memoize", (slot + 1) % 3, 0, "k6", None])
        for f, a_i in ((slot, 1), (slot, 2), ((slot + 1) % 3, 0)):
            m = storage.get_memento(refs.fwah(f, a_i))
            storage.read_result(m)
            audit.start()
            storage.read_result(m)
            audit.stop()
            cached.append(not audit.reads)
    vec["second_read_served_from_memory"] = cached
    r = storeops.apply_backend(storage, refs, vals, ["forget_call", slot, 0])
    vec["forget_rejected"] = isinstance(r, tuple) and r[1] == "ValueError"
    return vec


def runner_behaviour(cluster_name):
    """Does a call through the cluster execute the body?"""
    from vf import ffuncs
    from vf.recorder import REC

    ffuncs.TABLE["rb"] = 5
    mark = REC.mark()
    try:
        ffuncs.cproduce("rb")
        res = "returned"
    except RuntimeError:
        res = "refused"
    return {"call": res, "body_ran": len(REC.since(mark))}


# ---------------------------------------------------------------- building from the different forms
def storage_config(case, root):
    cfg = {"type": case["stype"]}
    if case["stype"] == "filesystem":
        cfg["path"] = os.path.join(root, "data")
        if case["meta"]:
            cfg["metadata_path"] = os.path.join(root, "meta")
        if case["cache"]:
            cfg["memory_cache_mb"] = CACHES[case["cache"]]
    if case["ro"] is not None:
        cfg["readonly"] = case["ro"]
    return cfg


def reference_storage(case, root):
    """The same options as constructor arguments."""
    from twosigma.memento.storage_filesystem import FilesystemStorageBackend
    from twosigma.memento.storage_memory import MemoryStorageBackend
    from twosigma.memento.storage_null import NullStorageBackend

    if case["stype"] == "filesystem":
        return FilesystemStorageBackend(path=os.path.join(root, "data"),
                                        metadata_path=os.path.join(root, "meta") if case["meta"] else None,
                                        memory_cache_mb=CACHES[case["cache"]], read_only=case["ro"])
    if case["stype"] == "memory":
        return MemoryStorageBackend(read_only=case["ro"])
    return NullStorageBackend()


def build_cluster(case, root, cfgdir):
    """Returns (storage backend, cluster or None) built through the case's source form."""
    import twosigma.memento as m
    from twosigma.memento.storage import StorageBackend

    scfg = storage_config(case, root)
    ccfg = {"name": "c", "storage": scfg}
    if case["runner"]:
        ccfg["runner"] = {"type": case["runner"]}
    form = case["form"]
    os.makedirs(cfgdir, exist_ok=True)
    build_cluster.last = {}
    # a configuration file may be addressed by an absolute path, by its bare name from its own directory or by a
    # relative path from the directory above (by the options of the case, no draw)
    how = sum(map(ord, label_of(case))) % 3

    def addr(path):
        if how == 0:
            return path
        os.chdir(cfgdir if how == 1 else os.path.dirname(cfgdir))
        return os.path.relpath(path, os.getcwd())

    if form == "create":
        return StorageBackend.create(scfg["type"], scfg), None
    if form == "cluster":
        cl = m.FunctionCluster(config=ccfg)
        return cl.storage, cl
    if form == "repo_json":
        with open(os.path.join(cfgdir, "repo.json"), "w") as f:
            json.dump({"name": "r", "clusters": {"c": ccfg}}, f)
        repo = m.ConfigurationRepository.from_file(addr(os.path.join(cfgdir, "repo.json")))
    elif form == "repo_yaml_template":
        # the YAML file is a jinja template; every path and option comes in as a template parameter
        tcfg = json.loads(json.dumps(ccfg))
        params = {"root": root}
        if "path" in scfg:
            tcfg["storage"]["path"] = "{{ root }}/data"
        if "metadata_path" in scfg:
            tcfg["storage"]["metadata_path"] = "{{ root }}/{{ metadir }}"
            params["metadir"] = "meta"
        if "memory_cache_mb" in scfg:
            tcfg["storage"]["memory_cache_mb"] = "@@CACHE@@"
            params["cache_mb"] = scfg["memory_cache_mb"]
        import yaml

        text = yaml.safe_dump({"name": "r", "clusters": {"c": tcfg}}).replace("'@@CACHE@@'", "{{ cache_mb }}").replace(
            "@@CACHE@@", "{{ cache_mb }}")
        # YAML has more than one spelling for a boolean: the read-only flag is written in one of them (by the options
        # of the case, no draw)
        k = sum(map(ord, label_of(case))) % 4
        text = text.replace("readonly: true", "readonly: " + ["true", "yes", "On", "TRUE"][k]).replace(
            "readonly: false", "readonly: " + ["false", "no", "Off", "NO"][k])
        with open(os.path.join(cfgdir, "repo.yaml"), "w") as f:
            f.write(text)
        repo = m.ConfigurationRepository.from_file(addr(os.path.join(cfgdir, "repo.yaml")), **params)
    else:  # env_json_nested: env file -> relative repo file -> relative cluster file
        os.makedirs(os.path.join(cfgdir, "repos", "clusters"), exist_ok=True)
        with open(os.path.join(cfgdir, "repos", "clusters", "c.json"), "w") as f:
            json.dump(ccfg, f)
        with open(os.path.join(cfgdir, "repos", "r.json"), "w") as f:
            json.dump({"name": "r", "clusters": {"c": "clusters/c.json"}}, f)
        with open(os.path.join(cfgdir, "env.json"), "w") as f:
            json.dump({"name": "e", "repos": ["repos/r.json"]}, f)
        e = m.Environment.from_file(addr(os.path.join(cfgdir, "env.json")))
        cl = e.get_cluster("c")
        build_cluster.last = {"env": e}
        return (cl.storage if cl else None), cl
    cl = repo.clusters.get("c")
    build_cluster.last = {"repo": repo}
    return (cl.storage if cl else None), cl


def label_of(case):
    return "storage=%s metadata_path=%s memory_cache_mb=%s readonly=%s runner=%s form=%s" % (
        case["stype"], case["meta"], case["cache"], case["ro"], case.get("runner"), case["form"])


def diff_vec(a, b):
    return {k: (a.get(k), b.get(k)) for k in set(a) | set(b) if a.get(k) != b.get(k)}


SIG = {"writes": "files appear under a different path / metadata path than configured",
       "second_read_served_from_memory": "configured memory cache size has no effect (reads touch the store differently)",
       "forget_rejected": "configured read-only flag is not honoured (forget)",
       "memoized": "configured read-only flag / storage type is not honoured (memoize)",
       "type": "configured storage type is not honoured", "memoize_raises": "memoize raises",
       "call": "configured runner type is not honoured", "body_ran": "configured runner type is not honoured"}


def run_matrix(case, out, fail, sc, dump=False):
    import twosigma.memento as m

    audit = audit_for([sc.root])
    # (directory names with characters that mean something to HTML / YAML / JSON / shells: options are paths, and
    # a path given through a file or a template parameter is the same path as one given as an argument)
    refroot, cfgroot = sc.path("ref"), sc.path("cfg R&D <t> %41")
    want = behaviour(reference_storage(case, refroot), [os.path.join(refroot, "data"), os.path.join(refroot, "meta")], 0, audit)
    try:
        storage, cluster = build_cluster(case, cfgroot, sc.path("files"))
    except Exception as e:
        import traceback

        return fail("building a backend from a valid configuration raises " + type(e).__name__,
                    "%s: %s" % (label_of(case), traceback.format_exc()[-500:]))
    if storage is None:
        return fail("configured cluster cannot be resolved", label_of(case))
    dirs = [os.path.join(cfgroot, "data"), os.path.join(cfgroot, "meta")]
    if dump:
        # the dumped environment must yield a cluster with equivalent behaviour
        # (the objects as they were built: the repository read from its file or rendered from its template, the
        # environment read from its file - not a new repository around the cluster)
        made = dict(build_cluster.last)
        if made.get("env") is not None:
            e1 = made["env"]
        elif made.get("repo") is not None:
            e1 = m.Environment(name="e", repos=[made["repo"]])
        else:
            e1 = m.Environment(name="e", repos=[m.ConfigurationRepository(name="r", clusters={"c": cluster})])
        d = json.loads(json.dumps(e1.to_dict()))
        try:
            e2 = m.Environment(d)
            cl2 = e2.get_cluster("c")
        except Exception as e:
            return fail("an environment cannot be constructed from its own dump (%s)" % type(e).__name__,
                        "%s: dump %s: %r" % (label_of(case), core.short(d, 400), e))
        if cl2 is None:
            return fail("a cluster is lost in the dump of its environment", label_of(case))
        got = behaviour(cl2.storage, dirs, 0, audit)
        out["obs"]["dump_vectors_compared"] += 1
        for k, (w, g) in diff_vec(want, got).items():
            fail("dump of an environment loses an option: " + SIG.get(k, k),
                 "%s: after Environment(env.to_dict()) behaviour %s is %s, constructor-argument backend gives %s; dump %s"
                 % (label_of(case), k, g, w, core.short(d, 300)))
        m.Environment.set(e2)
        r2 = runner_behaviour("c")
        want_r = {"call": "refused", "body_ran": 0} if case["runner"] == "null" else None
        if want_r and r2 != want_r:
            fail("dump of an environment loses an option: runner type", "%s: %s" % (label_of(case), r2))
        return
    # a second backend from an equal configuration (its own directories where there are any), alive at the same time:
    # like two back-ends made with equal constructor arguments, they do not share entries
    twin = None
    try:
        twin, _ = build_cluster(case, sc.path("cfg twin"), sc.path("files twin"))
    except Exception:
        pass
    got = behaviour(storage, dirs, 0, audit)
    out["obs"]["vectors_compared"] += 1
    if twin is not None and twin is not storage and got.get("memoized") is not None:
        refs, vals = storeops.Refs("c"), storeops.values()
        storeops.apply_backend(storage, refs, vals, ["memoize", 1, 1, "s1", None])
        out["obs"]["twin_backends_checked"] += 1
        seen = bool(twin.is_memoized(refs.refs[1], refs.ah[1][1])) or bool(twin.list_functions())
        if seen:
            fail("two back-ends built from equal configurations share their entries (two built with equal constructor arguments do not)",
                 "%s: an entry written through one backend is reported by the other" % label_of(case))
        storeops.apply_backend(storage, refs, vals, ["forget_call", 1, 1])
    elif twin is storage and twin is not None and case["stype"] != "null":  # (a stateless null storage may well be shared)
        fail("two back-ends built from equal configurations share their entries (two built with equal constructor arguments do not)",
             "%s: the very same backend object is handed out twice" % label_of(case))
    for k, (w, g) in diff_vec(want, got).items():
        fail(SIG.get(k, k), "%s: behaviour %s is %s, the constructor-argument equivalent gives %s" % (label_of(case), k, g, w))
    if case["form"] == "repo_yaml_template" and case["stype"] == "filesystem":
        # the same template file rendered once more, with other values for the same parameters: the options are those
        # of this rendering, not of the first one
        root2 = sc.path("cfg second rendering")
        params2 = {"root": root2, "metadir": "meta", "cache_mb": CACHES[case["cache"]] if case["cache"] else 0}
        try:
            repo2 = m.ConfigurationRepository.from_file(os.path.join(sc.path("files"), "repo.yaml"), **params2)
            st2 = repo2.clusters["c"].storage
            got2 = behaviour(st2, [os.path.join(root2, "data"), os.path.join(root2, "meta")], 0, audit)
            out["obs"]["templates_rendered_a_second_time"] += 1
            for k, (w, g) in diff_vec(want, got2).items():
                fail(SIG.get(k, k), "%s: the template file rendered a second time with other parameter values: behaviour %s is %s, "
                                    "the constructor-argument equivalent gives %s" % (label_of(case), k, g, w))
        except Exception as e:
            fail("building a backend from a valid configuration raises " + type(e).__name__,
                 "%s: second rendering of the template: %r" % (label_of(case), e))
    if cluster is not None:
        e = m.Environment(name="e", repos=[m.ConfigurationRepository(name="r", clusters={"c": cluster})])
        m.Environment.set(e)
        rb = runner_behaviour("c")
        out["obs"]["runner_behaviours_checked"] += 1
        want_r = {"call": "refused", "body_ran": 0} if case["runner"] == "null" else {"call": "returned", "body_ran": 1}
        if case["runner"] != "null" and (case["ro"] or case["stype"] == "null"):
            want_r = {"call": "returned", "body_ran": 1}
        for k, (w, g) in diff_vec(want_r, rb).items():
            fail(SIG[k], "%s: %s is %s expected %s" % (label_of(case), k, g, w))
    out["sample"] = {"options": label_of(case), "behaviour": got}


def run_order(case, out, fail, sc):
    import twosigma.memento as m

    def repo(i, names):
        # (every third repository goes by the name of the first one: names of repositories are labels, not keys)
        return m.ConfigurationRepository(name="r%d" % (1 if i % 3 == 0 else i), clusters={
            n: m.FunctionCluster(name=n, storage=env.fs_backend(sc.path("r%d_%s" % (i, n)))) for n in names})

    repos = [repo(0, ["dup", "only0"]), repo(1, ["dup", "only1"]), repo(2, ["dup2"])]
    ordered = [repos[i] for i in case["perm"]]
    e = m.Environment(name="e", base_dir=sc.path("base"), repos=list(ordered))
    if case["extra"] == "prepend":
        extra = repo(3, ["dup", "dup2"])
        e.prepend_repo(extra)
        ordered = [extra] + ordered
    elif case["extra"] == "append":
        extra = repo(4, ["dup", "dup2", "only4"])
        e.append_repo(extra)
        ordered = ordered + [extra]
    for name in ["dup", "dup2", "only0", "only1", "only4", "nowhere", ""]:
        want = next((r.clusters[name] for r in ordered if name in r.clusters), None)
        got = e.get_cluster(name)
        out["obs"]["resolutions_checked"] += 1
        if got is not want:
            fail("a cluster name does not resolve to the first repository in priority order that defines it",
                 "order %s extra %s: name %r resolved to %s expected %s" % (
                     [r.name for r in ordered], case["extra"], name,
                     getattr(got, "storage", None) and got.storage.config_path, want and want.storage.config_path))
    # the dump keeps the order
    e2 = m.Environment(json.loads(json.dumps(e.to_dict())))
    for name in ["dup", "dup2"]:
        a, b = e.get_cluster(name), e2.get_cluster(name)
        out["obs"]["resolutions_checked"] += 1
        if b is None or a.storage.config_path != b.storage.config_path:
            fail("dump of an environment changes which repository defines a cluster",
                 "order %s: %r -> %s vs %s" % ([r.name for r in ordered], name, a.storage.config_path,
                                              b and b.storage.config_path))
    out["sample"] = {"order": [r.name for r in ordered], "extra": case["extra"]}


def run_resolve_history(case, out, fail, sc):
    """Look-ups (hits and misses) interleaved with append_repo / prepend_repo on one live Environment; after
    every step the live environment and the environment rebuilt from its dump must resolve every name to the
    first repository in the current priority order that defines it, or to nothing."""
    import twosigma.memento as m

    rng = core.rng_for(case["seed"], ID, "resolve", case["idx"])
    names = ["n0", "n1", "n2", "n3"]
    count = [0]

    def repo():
        count[0] += 1
        i = count[0]
        defined = rng.sample(names, rng.randint(1, 3))
        # (every third repository goes by the name of the first one: names of repositories are labels, not keys)
        return m.ConfigurationRepository(name="r%d" % (1 if i % 3 == 0 else i), clusters={
            n: m.FunctionCluster(name=n, storage=env.fs_backend(sc.path("r%d_%s" % (i, n)))) for n in defined})

    ordered = [repo() for _ in range(rng.randint(0, 2))]
    e = m.Environment(name="e", base_dir=sc.path("base"), repos=list(ordered))
    trace = ["init " + "/".join("%s%s" % (r.name, sorted(r.clusters)) for r in ordered)]
    for step in range(rng.randint(6, 12)):
        r = rng.random()
        if r < 0.55:
            name = rng.choice(names + ["nowhere"])
            trace.append("get " + name)
            look = [name]
        else:
            rp = repo()
            if r < 0.8:
                e.append_repo(rp)
                ordered = ordered + [rp]
                trace.append("append %s%s" % (rp.name, sorted(rp.clusters)))
            else:
                e.prepend_repo(rp)
                ordered = [rp] + ordered
                trace.append("prepend %s%s" % (rp.name, sorted(rp.clusters)))
            look = names if rng.random() < 0.5 else [rng.choice(names)]
        e2 = m.Environment(json.loads(json.dumps(e.to_dict()))) if rng.random() < 0.4 else None
        for name in look:
            want = next((rr.clusters[name] for rr in ordered if name in rr.clusters), None)
            got = e.get_cluster(name)
            out["obs"]["resolutions_checked"] += 1
            out["obs"]["resolutions_in_histories"] += 1
            if got is not want:
                fail("a cluster name does not resolve to the first repository in priority order that defines it",
                     "history %s: name %r resolved to %s expected %s" % (
                         trace, name, getattr(got, "storage", None) and got.storage.config_path,
                         want and want.storage.config_path))
            if e2 is not None:
                got2 = e2.get_cluster(name)
                if (got2 is None) != (want is None) or (want is not None and got2.storage.config_path != want.storage.config_path):
                    fail("dump of an environment changes which repository defines a cluster",
                         "history %s: name %r in the rebuilt environment -> %s expected %s" % (
                             trace, name, got2 and got2.storage.config_path, want and want.storage.config_path))
    out["sample"] = {"history": trace}


def run_listed(case, out, fail, sc):
    """A repository defines a cluster under the name it LISTS it under (the key of its `clusters` mapping); the `name`
    written inside the cluster's own configuration may differ (one cluster file referenced under two names, a
    high-priority repository re-pointing a name). Repositories given as constructor arguments, inline dictionaries,
    JSON files and YAML templates, and the environment rebuilt from the dump, must resolve every name alike."""
    import twosigma.memento as m
    import yaml

    rng = core.rng_for(case["seed"], ID, "listed", case["idx"])
    pool = ["A", "B", "A.legacy", "shared", "team.a"]
    specs = []  # per repository: {listed name: (own name, storage path)}
    for i in range(rng.randint(1, 3)):
        listed = {}
        for key in rng.sample(pool, rng.randint(1, 3)):
            own = key if rng.random() < 0.4 else rng.choice(pool)
            listed[key] = (own, sc.path("r%d_%s" % (i, key)))
        specs.append(listed)
    form = ["ctor", "inline", "json", "yaml"][case["idx"] % 4]
    os.makedirs(sc.path("cfg"), exist_ok=True)

    def cluster_cfg(own, path):
        return {"name": own, "storage": {"type": "filesystem", "path": path}}

    repos = []
    for i, listed in enumerate(specs):
        if form == "ctor":
            repos.append(m.ConfigurationRepository(name="r%d" % i, clusters={
                key: m.FunctionCluster(name=own, storage=env.fs_backend(path)) for key, (own, path) in listed.items()}))
            continue
        clusters = {}
        for key, (own, path) in listed.items():
            if form != "inline" and rng.random() < 0.5:  # the cluster in a file of its own
                fn = sc.path("cfg", "r%d_%s.json" % (i, key.replace(".", "_")))
                with open(fn, "w") as f:
                    json.dump(cluster_cfg(own, path), f)
                clusters[key] = fn
            else:
                clusters[key] = cluster_cfg(own, path)
        cfg = {"name": "r%d" % i, "clusters": clusters}
        if form == "inline":
            repos.append(m.ConfigurationRepository(cfg))
        else:
            fn = sc.path("cfg", "repo%d.%s" % (i, "json" if form == "json" else "yaml"))
            with open(fn, "w") as f:
                (json.dump if form == "json" else yaml.safe_dump)(cfg, f)
            repos.append(m.ConfigurationRepository(m.configuration._load_config(sc.path("cfg"), fn)) if rng.random() < 0.5
                         else fn)
    if any(isinstance(r, str) for r in repos):
        e = m.Environment({"name": "e", "base_dir": sc.path("base"),
                           "repos": [r if isinstance(r, str) else r.to_dict() for r in repos]})
    else:
        e = m.Environment(name="e", base_dir=sc.path("base"), repos=repos)
    e2 = m.Environment(json.loads(json.dumps(e.to_dict())))
    label = "repositories (%s) %s" % (form, [{k: v[0] for k, v in listed.items()} for listed in specs])
    for name in pool + ["nowhere"]:
        want = next((listed[name][1] for listed in specs if name in listed), None)
        for which, ee in (("", e), (" rebuilt from its dump", e2)):
            got = ee.get_cluster(name)
            got_path = got and got.storage.config_path
            out["obs"]["resolutions_checked"] += 1
            out["obs"]["resolutions_of_listed_names"] += 1
            if (got is None) != (want is None) or (want is not None and os.path.realpath(str(got_path)) != os.path.realpath(want)):
                fail("a cluster name does not resolve to the first repository in priority order that defines it"
                     if not which else "dump of an environment changes which repository defines a cluster",
                     "%s: name %r in the environment%s resolves to %s, expected %s" % (label, name, which, got_path, want))
    out["sample"] = {"listed": label}


def run_shared_dict(case, out, fail, sc):
    """One configuration dictionary object is handed to several constructors, some with explicit arguments: every
    backend behaves as the configuration the caller wrote + its own arguments say."""
    from twosigma.memento.storage_filesystem import FilesystemStorageBackend
    from twosigma.memento.storage_memory import MemoryStorageBackend

    rng = core.rng_for(case["seed"], ID, "shared", case["idx"])
    audit = audit_for([sc.root])
    kind = rng.choice(["filesystem", "filesystem", "memory"])
    cfg = {"type": kind}
    if kind == "filesystem":
        cfg["path"] = sc.path("S", "data")
        if rng.random() < 0.5:
            cfg["metadata_path"] = sc.path("S", "meta")
        if rng.random() < 0.5:
            cfg["memory_cache_mb"] = rng.choice([1, 4 * env.KIB])
    if rng.random() < 0.6:
        cfg["readonly"] = rng.random() < 0.5
    original = json.loads(json.dumps(cfg))
    label = "configuration %s" % (original,)
    for n in range(rng.randint(2, 4)):
        kw = {}
        if rng.random() < 0.6:
            kw["read_only"] = rng.random() < 0.5
        if kind == "filesystem" and rng.random() < 0.3:
            kw["memory_cache_mb"] = rng.choice([0, 1])
        cls = FilesystemStorageBackend if kind == "filesystem" else MemoryStorageBackend
        st = cls(config=cfg, **kw)                       # the shared dictionary object
        ref = cls(config=json.loads(json.dumps(original)), **kw)  # a private copy of what the caller wrote
        out["obs"]["backends_built_from_a_shared_dictionary"] += 1
        if bool(st.read_only) != bool(ref.read_only):
            fail("a configuration dictionary used for several back-ends carries one backend's arguments over to the next: read-only flag",
                 "%s, construction %d with %s: read_only=%s, from a private copy of the configuration %s" % (
                     label, n, kw, st.read_only, ref.read_only))
        if kind == "filesystem":
            has = lambda b: getattr(b, "_memory_cache", None) is not None
            if has(st) != has(ref):
                fail("a configuration dictionary used for several back-ends carries one backend's arguments over to the next: memory cache",
                     "%s, construction %d with %s: cache %s, from a private copy %s" % (label, n, kw, has(st), has(ref)))
        if cfg != original:  # (not judged by itself: only its effect on the next backend is)
            out["obs"]["constructions_that_modified_the_callers_dictionary"] += 1
    out["sample"] = {"configuration": original}


def run_override(case, out, fail, sc):
    import twosigma.memento as m
    from twosigma.memento.storage_filesystem import FilesystemStorageBackend

    audit = audit_for([sc.root])
    A, B = sc.path("A"), sc.path("B")
    full_cfg = {"path": os.path.join(A, "data"), "metadata_path": os.path.join(A, "meta"), "readonly": True,
                "memory_cache_mb": 1}
    full_arg = {"path": os.path.join(B, "data"), "metadata_path": os.path.join(B, "meta"), "read_only": False,
                "memory_cache_mb": 4 * env.KIB}
    if case.get("off"):
        # explicit values that switch an option of the configuration off: metadata next to the data, no cache
        full_arg["memory_cache_mb"] = 0
    names = [("path", "path"), ("metadata_path", "metadata_path"), ("readonly", "read_only"), ("memory_cache_mb", "memory_cache_mb")]
    cfg = {"type": "filesystem"}
    chosen = {}
    for bit, (ck, ak) in enumerate(names):
        if case["cfg_mask"] >> bit & 1:
            cfg[ck] = full_cfg[ck]
        if case["arg_mask"] >> bit & 1:
            chosen[ak] = full_arg[ak]
    if "path" not in cfg and "path" not in chosen:
        chosen["path"] = full_arg["path"]  # never fall back to the home directory
    if case.get("off") and "metadata_path" in chosen:
        chosen["metadata_path"] = chosen.get("path", cfg.get("path"))
    st = FilesystemStorageBackend(config=dict(cfg), **chosen)
    data_dir = chosen.get("path", cfg.get("path"))
    meta_dir = chosen.get("metadata_path", cfg.get("metadata_path", data_dir))
    cache = "4KiB" if "memory_cache_mb" in chosen else ("1MiB" if "memory_cache_mb" in cfg else None)
    if case.get("off") and "memory_cache_mb" in chosen:
        cache = None
    eff = {"stype": "filesystem", "meta": meta_dir != data_dir, "cache": cache,
           "ro": chosen.get("read_only", cfg.get("readonly"))}
    ref = FilesystemStorageBackend(path=sc.path("R", "data"), metadata_path=sc.path("R", "meta") if eff["meta"] else None,
                                   memory_cache_mb=CACHES[eff["cache"]], read_only=eff["ro"])
    want = behaviour(ref, [sc.path("R", "data"), sc.path("R", "meta")], 0, audit)
    got = behaviour(st, [data_dir, meta_dir if meta_dir != data_dir else data_dir + "-no-separate-metadata"], 0, audit)
    out["obs"]["override_vectors_compared"] += 1
    for k, (w, g) in diff_vec(want, got).items():
        fail("an explicit constructor argument does not override the configuration: " + SIG.get(k, k),
             "config %s explicit %s: behaviour %s is %s expected %s" % (cfg, chosen, k, g, w))
    # the dump of an environment holding this backend rebuilds a backend that behaves the same
    e1 = m.Environment(name="e", base_dir=sc.path("base"), repos=[m.ConfigurationRepository(
        name="r", clusters={"cl": m.FunctionCluster(name="cl", storage=st)})])
    e2 = m.Environment(json.loads(json.dumps(e1.to_dict())))
    st2 = e2.get_cluster("cl").storage
    # (the rebuilt backend works on the same directories, which now hold slot 0: observe slot 1 on both)
    want2 = behaviour(st, [data_dir, meta_dir if meta_dir != data_dir else data_dir + "-no-separate-metadata"], 1, audit)
    got2 = behaviour(st2, [data_dir, meta_dir if meta_dir != data_dir else data_dir + "-no-separate-metadata"], 2, audit)
    out["obs"]["override_dump_vectors_compared"] += 1
    for k, (w, g) in diff_vec(want2, got2).items():
        fail("the dump of an environment does not rebuild an equivalent backend: " + SIG.get(k, k),
             "config %s explicit %s: behaviour %s of the rebuilt backend is %s, of the original %s; dump %s"
             % (cfg, chosen, k, g, w, json.dumps(st.to_dict())))
    # cluster-level: explicit storage / runner objects override the configuration
    from twosigma.memento.runner_null import NullRunnerBackend

    cl = m.FunctionCluster(config={"name": "c", "storage": {"type": "null"}, "runner": {"type": "local"}},
                           storage=env.fs_backend(sc.path("X")), runner=NullRunnerBackend())
    if cl.storage.storage_type != "filesystem" or cl.runner.runner_type != "null":
        fail("an explicit constructor argument does not override the configuration: cluster storage / runner", "")
    out["sample"] = {"config": cfg, "explicit": chosen}


def run_repo_args(case, out, fail, sc):
    """An explicit clusters= argument of a repository replaces the clusters its configuration lists (inline or as files):
    names the argument does not give resolve to nothing, names it gives resolve to the argument's cluster - in the live
    environment and in the one rebuilt from its dump."""
    import twosigma.memento as m

    rng = core.rng_for(case["seed"], ID, "repo_args", case["idx"])
    names = ["alpha", "beta", "gamma"]
    cfgdir = sc.path("files")
    os.makedirs(cfgdir, exist_ok=True)
    listed = {}
    for n in names:
        ccfg = {"name": n, "storage": {"type": "filesystem", "path": sc.path("cfg_" + n)}}
        if rng.random() < 0.5:  # (some clusters are listed as files)
            with open(os.path.join(cfgdir, n + ".json"), "w") as f:
                json.dump(ccfg, f)
            listed[n] = n + ".json"
        else:
            listed[n] = ccfg
    given = {n: m.FunctionCluster(config={"name": n, "storage": {"type": "filesystem", "path": sc.path("arg_" + n)}})
             for n in rng.sample(names, rng.randint(1, 2))}
    if case["idx"] % 3 == 0:
        given = {}  # (an explicit argument that gives nothing: every listed name resolves to nothing)
    repo = m.ConfigurationRepository(config={"name": "r", "base_dir": cfgdir, "clusters": listed}, clusters=given)
    e1 = m.Environment(name="e", repos=[repo])
    if case["idx"] % 3 == 1:
        # ... the same one level up: an environment whose configuration lists a repository, built with an explicit (empty, or
        # other) list of repositories
        listing = {"name": "e0", "base_dir": cfgdir, "repos": [{"name": "r0", "base_dir": cfgdir, "clusters": listed}]}
        e0 = m.Environment(config=listing, repos=[repo] if case["idx"] % 2 else [])
        out["obs"]["environments_with_an_explicit_repos_argument"] += 1
        for n in names:
            cl = e0.get_cluster(n)
            got = None if cl is None else os.path.basename(str(cl.storage.to_dict().get("path")))
            want = ("arg_" + n) if (n in given and case["idx"] % 2) else None
            out["obs"]["names_resolved"] += 1
            if got != want:
                fail("an explicit argument does not override the configuration (repositories of an environment)",
                     "environment listing a repository with clusters %s, built with repos=%s: name %r resolves to %s, expected %s"
                     % (sorted(listed), "[repository with %s]" % sorted(given) if case["idx"] % 2 else "[]", n, got, want))
    e2 = m.Environment(json.loads(json.dumps(e1.to_dict())))
    out["obs"]["repositories_with_an_explicit_clusters_argument"] += 1
    for which, e in (("the environment", e1), ("the environment rebuilt from its dump", e2)):
        for n in names:
            cl = e.get_cluster(n)
            got = None if cl is None else os.path.basename(str(cl.storage.to_dict().get("path")))
            want = ("arg_" + n) if n in given else None
            out["obs"]["names_resolved"] += 1
            if got != want:
                fail("an explicit argument does not override the configuration (clusters of a repository)",
                     "repository listing %s with clusters=%s: in %s name %r resolves to %s, expected %s"
                     % (sorted(listed), sorted(given), which, n, got, want))


def run_case(case):
    out = {"viol": [], "nontrivial": [], "obs": collections.Counter()}

    def fail(sig, msg):
        if len(out["viol"]) < 8:
            out["viol"].append({"sig": sig, "msg": msg})

    with env.Scratch() as sc:
        if case["kind"] == "matrix":
            run_matrix(case, out, fail, sc)
        elif case["kind"] == "dump":
            run_matrix(case, out, fail, sc, dump=True)
        elif case["kind"] == "order":
            run_order(case, out, fail, sc)
        elif case["kind"] == "shared_dict":
            run_shared_dict(case, out, fail, sc)
        elif case["kind"] == "listed":
            run_listed(case, out, fail, sc)
        elif case["kind"] == "repo_args":
            run_repo_args(case, out, fail, sc)
        elif case["kind"] == "resolve_history":
            run_resolve_history(case, out, fail, sc)
        else:
            run_override(case, out, fail, sc)
    if case["kind"] in ("matrix", "dump") and (case["meta"] or case["cache"] or case["ro"] is not None or case["stype"] != "filesystem"):
        out["nontrivial"].append("%s:%s" % (case["kind"], label_of(case)))
    out["obs"] = dict(out["obs"])
    return out


def conclude(agg):
    return core.first(core.need(agg, "vectors_compared", 150), core.need(agg, "dump_vectors_compared", 30),
                      core.need(agg, "resolutions_checked", 100), core.need(agg, "resolutions_in_histories", 100), core.need(agg, "resolutions_of_listed_names", 100), core.need(agg, "backends_built_from_a_shared_dictionary", 40), core.need(agg, "override_vectors_compared", 200), core.need(agg, "override_dump_vectors_compared", 200),
                      core.need(agg, "runner_behaviours_checked", 100)), {"exhaustive": True}
