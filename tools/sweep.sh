#!/bin/bash
# usage: tools/sweep.sh "C02 C05 ..." "0 1 2 3" [tier]   -- runs checks for several seeds, prints verdict lines only
cd "$(dirname "$0")/.."
for c in $1; do for s in $2; do
  out=$(VERIF_SEED=$s ./check $c --tier ${3:-quick} 2>&1); rc=$?
  echo "$c seed=$s exit=$rc $(echo "$out" | grep -E '^(HELD|INCONCLUSIVE|VIOLATION|KNOWN)' | head -2 | cut -c1-160 | tr '\n' ' ')"
done; done
