#!/usr/bin/env python3
"""Regenerates MANIFEST.json from the table below (keeps it valid at all times)."""
import json
import os

HERE = os.path.dirname(os.path.dirname(os.path.abspath(__file__)))
ALL = ["C%02d" % i for i in range(1, 20)]

# id -> (level, technique, level text, level note, design ref)
CHECKS = {}


def add(pid, level, technique, text, note, ref):
    CHECKS[pid] = (level, technique, text, note, ref)


add("C05", "exploration", "runtime monitoring: differential lock-step execution of 4 live back-ends against a dictionary reference model",
    "Every answer of every public storage operation, over thousands of random histories (plus all short histories over a reduced alphabet in the thorough tier), is compared with a dictionary model; held means no divergence was observed on the histories driven, which cover name-prefix pairs, oversize values, recorded failures and partitions as values, key overrides, re-opened stores, reads through the memento handed out by the latest and by an earlier write of a call, listings with a limit, one metadata key written both ways (metadata store / next to the data, also under the empty key, also followed by a new result for the call), is_all_memoized with lists and one-shot iterables, listings with limit 0 and both clusters.",
    "Trusts the 60-line dictionary model and type-aware equality in vf/domain.py; says nothing about histories not generated.", "DESIGN.md §4 C05")

add("C06", "exploration", "runtime monitoring: class invariant and LRU/eviction rules evaluated on the live MemoryCache after every operation of an exhaustive (to state closure) operation enumeration, plus audit-hook watch of file opens",
    "The invariant (usage = sum of resident sizes <= budget, no oversize resident, queue = table, recency order, no needless or out-of-order eviction, stale value never served) is evaluated on the real cache object after every transition of a BFS that reaches closure of the abstract state space (queue order, sizes, table order, weak-reference table, recency ranks) for three budgets and for string, array and mixed value kinds, and after every step of random back-end histories ending in random forget-everything sequences.",
    "Sizes are the code's own estimates; recency is judged with touch intervals so that implementation choices (is_memoized refreshes, memento look-up does not) are not flagged; the BFS de-duplicates by abstract state.", "DESIGN.md §4 C06")
add("C07", "exploration", "runtime monitoring: after every step a separate cache-less backend re-reads and re-hashes every live memento against a shadow table of the bytes at creation",
    "Integrity invariant checked over the whole store after every step of thousands of histories with shared override keys, None and partition results, writes cut short by a kernel-level file size limit, and writers forked from a process that had opened the store; held = no live memento ever changed, every c/<h> object hashed to h, equal bytes shared one version.",
    "Trusts sha256 and the shadow table; the file-level scan is layout dependent and only secondary.", "DESIGN.md §4 C07")
add("C19", "exploration", "runtime monitoring: tree snapshot diff + audit-hook (and strace in the thorough tier) observation of every operation through read-only / null back-ends",
    "Random storage histories and function-level call sequences against pre-populated stores (intact, or left with dangling / empty links by an interrupted writer) re-opened read-only in 12 variants, null storage, and the null runner on intact and damaged stores and for calls nested in a function of another cluster; every outcome is compared with the frozen dictionary, the storage trees are compared byte-for-byte (incl. mtimes) and mutating audit events / system calls are looked for.",
    "Access times are ignored; audit-hook coverage is CPython's, strace covers the rest in the thorough tier.", "DESIGN.md §4 C19")

add("C02", "exploration", "runtime monitoring: execution recorder (body counts) + type-aware equality of every returned value + replayed exception class/message + recorded result type, across back-ends and modifiers",
    "Each (value, backend, modifier) runs on a fresh store: first call, two later calls, re-use of the first value, memento result type, forget and recompute while a call of another argument holds an equal result / failed in exactly the same way (it must still be served). Held = every later call was observed to be served without a body execution and equal in value and type, for all result types of the domain and 15 exception classes.",
    "The recorder is the ground truth for body executions; equality is vf.domain.eq; exception rebuildability is decided by importing the class by name and calling it with one string.", "DESIGN.md §4 C02")
add("C17", "exploration", "runtime monitoring: key-by-key comparison of every partition handed back (computing call, later call, cache-less re-read, first value re-used later) with the overlay closed form",
    "Partition chains of length 1-5 with overlapping keys (values now and then partitions themselves, or equal-comparing values of different types) plus sibling children of a random level and a function that hands a level on as its own result, both staging kinds, three parent provenances and three back-ends; every level is served again after its children were stored; every key is loaded on its own and compared with own-keys-win overlay; body counts show each level is memoized.",
    "Overlay closed form (dict.update in chain order) and vf.domain.eq are trusted.", "DESIGN.md §4 C17")

add("C04", "exploration", "runtime monitoring: arg_hash, hit/miss (recorder + unique result serials) and received values of every call presentation, against an independent implementation of the documented algorithm and metamorphic relations",
    "Thousands of call families over generated signatures (presentations: positional / keyword split, 1-3 partial steps, keyword partials completed by position, sibling partials, shuffled dictionaries; values include datetimes whose zone has date-dependent offsets and text that is not in a Unicode normalisation form): every equivalent presentation must produce the documented SHA-256 and be served the first presentation's result; every near-miss must produce a different key and run the body; the body's received values are compared with the arguments passed.",
    "vf.models.spec_arg_hash (written from the ArgumentHasher docstring and docs) is trusted; canonical JSON via json.dumps(sort_keys, compact separators).", "DESIGN.md §4 C04")
add("C11", "exploration", "runtime monitoring: field-wise comparison of decode(encode(m)), recomputed argument hash, JSON stability, hand-written wire-schema validator, committed golden documents",
    "Random mementos over the whole argument domain are round-tripped through json text; each document is validated structurally; 60 golden documents written by the pinned tree must keep decoding to their recorded summaries.",
    "Structural equality of references; golden documents were produced by the pinned commit 6149a38.", "DESIGN.md §4 C11")

add("C10", "exploration", "runtime monitoring: stored invocation / resource / dependency records of every recomputed call compared with a closed form simulated from the generated call-tree data, over all subsets of sub-calls memoized beforehand",
    "Generated call DAGs with direct, keyword, partial, function-valued, batch (duplicates), failing and not-to-be-memoized sub-calls; for every subset (all 2^n for n<=5) of memoized sub-calls the recomputed records must equal the closed form; single and batch root invocation; three store configurations, subsets whose result data was removed, runs with the named cluster's store opened read-only, trees evaluated on a worker thread, and aimed batches over two nodes of one function.",
    "The tree simulation (vf.trees.simulate) and the documented argument hash are trusted; dependencies are compared as sets of qualified names.", "DESIGN.md §4 C10")
add("C16", "exploration", "runtime monitoring: recorder of parameters seen by bodies, look-ups of stored entries under effective and foreign contexts, recorded invocation contexts, body executions after a context change, outcome of prevented nested calls",
    "Call trees with context dictionaries attached at the root and at random inner edges; every entry must be found under its effective context only, with the documented hash; re-runs under the same / a different root context must execute exactly the predicted bodies; prevented nested calls must fail without executing.",
    "Effective-context closed form in vf.trees.simulate (inherit unless the edge attaches its own, which replaces entirely).", "DESIGN.md §4 C16")

add("C15", "exploration", "runtime monitoring: slot-by-slot comparison of call_batch / map_over_range with individual calls on a twin store, store-state comparison, recorder body counts",
    "Batches with duplicates, typed twins (1 / 1.0 / True), failing and not-to-be-memoized elements, elements that name different parameters, ranges given as sequences, views and one-shot iterators, random pre-memoized subsets, both raise_first_exception settings, four presentations and three store kinds; each batch is mirrored by individual calls on a twin store.",
    "Failures compare by class and message prefix; stored exceptions by recorded class name and message.", "DESIGN.md §4 C15")
add("C18", "exploration", "runtime monitoring: behaviour vectors (tree snapshots + audit hook + call outcomes) of configured back-ends and clusters compared with constructor-argument equivalents over the full option matrix",
    "Every option combination x five source forms (inline dict, cluster config, JSON file, YAML jinja template, nested relative files) is built and its behaviour observed; explicit-argument overrides, all repository orders with duplicated names, clusters listed under a name other than their own in every source form, twin back-ends built from equal configurations, every template rendered a second time with other values, histories of look-ups interleaved with repositories added later (live environment and its rebuilt dump), and environment dumps are checked the same way.",
    "Behaviour vector = where files appear, cache hits for three value sizes, write/forget behaviour, body execution; the matrix is enumerated completely.", "DESIGN.md §4 C18")

add("C12", "exploration", "runtime monitoring: parse results compared with the parts a name was built from (independent all-decompositions enumerator classifies ambiguous strings), stored entries looked up again in fresh processes, every metadata read observed after scripted code evolutions",
    "Names over the stated alphabet are parsed, a sample is stored under real functions/clusters on a filesystem store and found again by call, memento(), list_mementos() and list_memoized_functions(); thirteen evolution kinds (edited, removed, renamed, made plain, re-clustered with and without its explicit version, version-bumped incl. odd version strings, parameters dropped / swapped / prepended with the version kept, ...) x five ways the pinned caller reaches the evolving callee (by name, as a function-valued argument bare or nested, through a partial, through a batch) are run across fresh processes in default and named clusters, with and without cache.",
    "Inherently ambiguous qualified names (more than one valid decomposition) are reported as the single known finding K1; module and function names are dotted identifiers.", "DESIGN.md §4 C12")

add("C01", "exploration", "runtime monitoring: value of every memento function after every edit of generated programs, compared with the twin (un-memoized) execution of the current edition; execution recorder shows which calls were served from the store",
    "Generated programs (functions spread over two modules, the package's __init__.py and a second package; typed defaults and constants) with 26 edit kinds (incl. the earlier definition an old name still refers to, tuple <-> list and equal-number-other-type variables, a failing call moved out of / into a try block, decorator and factory arguments kept in closure cells, two aliases exchanging their targets) and aimed histories (two explicit versions re-pinned so that their concatenation stays the same, a variable taking the value another one holds, a helper in __init__.py), one or several edits between calls, delivered across processes against one persistent store or inside a running process (cell-style re-execution, rebinding/mutation of variables, module reload); every function is called twice after every edit (callers first, or callees first with the arguments their callers pass, so that hidden callees are memoized already) and compared with running Python on the same source with memento_function = identity.",
    "The twin execution defines the expected value; explicit versions above an edit are bumped (their contract); UndeclaredDependencyError is accepted; in cell-style delivery, imports and aliases that copy a re-executed definition are re-executed too.", "DESIGN.md §4 C01")

add("C03", "exploration", "runtime monitoring: version maps reported by real interpreters under different PYTHONHASHSEED values, definition orders and query orders; execution trace file of a second process on the first one's store",
    "Every generated program (all contain set and tuple constants, nested code and cross-module references; many span two packages and __init__.py; dictionaries built from sets, a memento function as default value, a symbol bound at the end of the module under the name of a missing attribute, a helper defined twice, module-level modifier clones next to their function, set constants of bytes and tuples, a builtin-named helper as the only helper of the function registered last) is imported by 8 (quick) / 24 (thorough) real interpreters; all version maps must be identical; a second interpreter with another hash seed and other orders must execute no body at all on the first one's store.",
    "Each interpreter is a fresh /venv/bin/python process; PYTHONHASHSEED values are a sample.", "DESIGN.md §4 C03")
add("C13", "exploration", "runtime monitoring: version() of every registered function after every prefix of an in-process event sequence, compared with the versions a pristine forked child computes from the identical compilation units of the resulting program",
    "Event sequences mixing redefinitions (also of unchanged definitions), events that nobody follows with a query, rebinding/mutation of variables, alias re-binding, late-defined symbols, memento/plain switches, modifier clones and unregistered wrappers, with interleaved subset queries, plus templated scenarios that re-bind a helper to functions of another module, re-bind a module alias or the name of a memento function to its plain function / a clone / an unregistered wrapper, or define one of several undefined symbols of one name; aimed pairs (silent variable event, then a clone of a reader); after every event the running process's versions are compared with a from-scratch computation in a fresh child.",
    "The oracle child executes the base files with superseded definitions cut out plus the surviving cells (same pseudo-filenames), i.e. the code's own from-scratch computation; clones/wrappers are judged only at creation.", "DESIGN.md §4 C13")

add("C14", "exploration", "runtime monitoring: reported transitive/direct dependency sets and dependency-graph edges of every memento function in exhaustively enumerated reference graphs (one pristine child each), and outcomes of hidden dynamic calls, against graph reachability",
    "All 2048 three-node graphs (all subsets of edges incl. self-loops and cycles, all kind assignments) in fifteen forms (bare name, module.attr, alias, decorator-wrapped with the decorator in the same or in another module, helpers in __init__.py with the root in a sub-module and the other way round, call chains, pinned versions, lambda, factory-made and lru_cache-wrapped helpers, non-referenced names used as locals of nested scopes, names that begin one another), asked of every function and of a modifier clone of the root, four-node graphs in the thorough tier; random two-module programs with hidden globals() calls and function-valued defaults are executed - callers first and callees first - and must raise the undeclared-dependency error exactly when an executed hidden call leaves the caller's static closure; functions passed as arguments (bare, list, dict, nested) must be callable.",
    "Reachability on the generated graph data is the oracle; non-memento rules are ignored; small scopes are enumerated completely.", "DESIGN.md §4 C14")

add("C08", "fault_enumeration", "runtime monitoring under fault injection: audit-hook failpoints (crash-before, crash-mid-write with content prefixes, error on the operation, error on write after n bytes) at every mutating filesystem operation of a memoizing call, plus kernel-level file size limits (RLIMIT_FSIZE) at every size class of the files written; calls observed in fresh processes afterwards",
    "For each scenario a profiling run (deterministic version ids) enumerates every mkdir / open-for-write / rename / remove of the memoizing call; every operation is faulted in every applicable variant (thorough: every byte of every link file) in a pristine child, (scenarios incl. results larger than the memory cache that the caller keeps, and a partition chain computed inside one call) then three fresh processes (the last one also forgets the call and makes it again) call the function and a second function with byte-identical results: values must be correct, nothing may raise, and no body may run in the third process (bounded recovery).",
    "Crash = os._exit at the failpoint; faults hit mutating operations only; durability of completed writes is left to the file system; CPython audit events enumerate the operations.", "DESIGN.md §4 C08")

add("C09", "exploration", "runtime monitoring under schedule control: a baton scheduler over sys.monitoring (LINE events in runner and cache code, function-entry events elsewhere, scheduler-aware locks) drives 2-3 real threads through systematically enumerated one-preemption schedules and random / PCT schedules; results, escaping errors, body counts, deadlocks, cache accounts and call stacks are checked per run",
    "Per scenario (incl. the same call through modifier clones, a caller whose batch element another thread computes, three threads on a nested call, and an automatically versioned function whose module is loaded afresh before every run) and store/cache state (filesystem cold / warm / warm cache, in-heap backend) every schedule with one preemption (every yield point of the unpreempted run) is executed, plus random and priority-based schedules (thorough: every starting thread, sampled two-preemption schedules, storage_filesystem at line granularity); each run is compared with sequential executions of the same thread bodies (values, body counts, cache accounts, recorded provenance). Evidence reports distinct switch traces.",
    "Only locks and condition variables created through the re-bound factories (RLock / Lock / Condition names of the package's modules) and module-level lock / condition objects of these modules are visible to the scheduler; anything else blocking shows as a watchdog time-out = inconclusive. Line-granularity preemption is finer than what one CPython build does.", "DESIGN.md §4 C09")

# what later rounds added to the workloads (appended to the level text)
ROUND9 = {
    "C01": " Also: string constants inside generator expressions and lambdas of a body, helpers decorated without functools.wraps, lambda helpers on continuation lines.",
    "C02": " Result arrays also zero-, two- and three-dimensional, Fortran-ordered, strided, with an empty axis.",
    "C03": " Half of the programs call a plain helper through a module-level functools.partial object.",
    "C07": " Histories also store partitions with entries inherited from a merge parent.",
    "C09": " One scenario class (automatically versioned caller with two dependencies, different arguments per thread) gives every run a newly forked process, so that per-process lazily built state is built while the threads run.",
    "C10": " A third of the trees run under context arguments attached at the root, with calls attaching their own at inner edges.",
    "C12": " Evolutions also with the callee nested in a class, and with the removed callee's name left bound to another function of the same explicit version.",
    "C13": " Re-binding scenarios also for a function with a declared dependency, and in several statements with all versions asked after each (variable to an opaque object and back, module alias in front of an undefined attribute, helper name to an array).",
    "C14": " Reference forms also 'declared' (explicit dependencies) and 'nowraps' (decorator without functools.wraps); four-node graphs (aimed family + seeded sample) in the quick tier; aimed builtin-named functions in the random programs.",
    "C16": " Prevented-parent scenarios go through every nested-call form, also calls attaching context arguments of their own.",
    "C17": " Levels are also held as values of other (in-memory / on-disk staging) partitions before a further child is made, the holder forgotten in between; a child stored in another cluster than its parent.",
}
for _pid, _extra in ROUND9.items():
    _l, _t, _text, _n, _r = CHECKS[_pid]
    CHECKS[_pid] = (_l, _t, _text + _extra, _n, _r)

ROUND11 = {
    "C01": " Rounds 10-11: plain helpers and lambdas as default values, parameter names exchanged under keyword calls, module-level partial clones with an edited bound argument.",
    "C02": " Rounds 10-11: pandas timestamps as results, exception classes that share their name with a class of another module.",
    "C03": " Rounds 10-11: a plug-in module filling a tracked list in place (imported first or last), memento functions defined twice with the old name kept (eight hash seeds).",
    "C04": " Rounds 10-11: refused calls in front of families, keys computed by four threads at once.",
    "C06": " Rounds 10-11: reads with an earlier memento in the enumeration; frames with cells of very uneven size under many sampling states; booked sizes must not be negative.",
    "C10": " Rounds 10-11: list arguments that the caller changes in place after the call.",
    "C12": " Rounds 10-11: the callee's module moved into a package with the old module kept as a re-export.",
    "C13": " Rounds 10-11: re-bindings from an opaque to a describable value of the same type, in-place changes of opaque containers, helper names bound to functions of another package.",
    "C14": " Rounds 10-11: four-node graphs with the root in one package and the others in another.",
    "C15": " Rounds 10-11: functions with **opts and elements naming parameters outside the signature.",
    "C16": " Rounds 10-11: prevented calls that also attach context arguments, in both orders.",
    "C17": " Rounds 10-11: read-back handles given a merge parent, parents whose latest store is gone, children of a parent whose own store failed.",
    "C18": " Rounds 10-11: dumps of the repository / environment objects as they were built from files and templates.",
    "C19": " Rounds 10-11: one configuration dictionary used with and without an explicit override; on-disk partition results under a read-only cluster.",
}
for _pid, _extra in ROUND11.items():
    _l, _t, _text, _n, _r = CHECKS[_pid]
    CHECKS[_pid] = (_l, _t, _text + _extra, _n, _r)

ROUND12 = {
    "C01": " Round 12: a helper re-executed reading a new variable, then the variable changes.",
    "C03": " Round 12: equal numbers of different types read by different functions.",
    "C04": " Round 12: strings with a backslash and their escape twins.",
    "C05": " Round 12: every memoization hands over a memento of its own; the same result memoized twice.",
    "C07": " Round 12: two writers under one override key under schedule control.",
    "C08": " Round 12: earlier calls stored under the override key the faulted call writes to.",
    "C10": " Round 12: sub-calls whose result the body ignores.",
    "C12": " Round 12: current functions must not read back as external; class-nested functions in the store part.",
    "C15": " Round 12: batches of 300+ elements.",
    "C18": " Round 12: YAML's other boolean spellings.",
}
for _pid, _extra in ROUND12.items():
    _l, _t, _text, _n, _r = CHECKS[_pid]
    CHECKS[_pid] = (_l, _t, _text + _extra, _n, _r)

ROUND13 = {
    "C01": " Round 13: a variable read only beneath a memento callee.",
    "C04": " Round 13: functions defined again in process with another parameter list.",
    "C09": " Round 13: partition results; the values served after the threads finished are judged.",
    "C13": " Round 13: functions in a named cluster, the same-named variable of another module, a registry of memento functions.",
    "C14": " Round 13: object-style decorators, a four-package program under several hash seeds, a global that answers every attribute.",
    "C15": " Round 13: ignore_result batches over memoized elements.",
    "C17": " Round 13: on-disk levels that assign their keys twice.",
    "C18": " Round 13: repositories built with an explicit clusters argument.",
    "C19": " Round 13: stale with-data metadata read through the read-only backend.",
}
for _pid, _extra in ROUND13.items():
    _l, _t, _text, _n, _r = CHECKS[_pid]
    CHECKS[_pid] = (_l, _t, _text + _extra, _n, _r)

ROUND14 = {
    "C01": " Round 14: hidden calls through a registry of handlers; imports inside a function body (known finding K2).",
    "C02": " Round 14: strings with carriage returns and other line separators.",
    "C07": " Round 14: partitions staged on disk whose values are stored already.",
    "C08": " Round 14: after the fault, other calls are the first to write under the shared override key.",
    "C10": " Round 14: function values handed over and never applied.",
    "C13": " Round 14: a list bound by a module-level partial clone changed in place; the oracle process computes from scratch.",
    "C14": " Round 14: hidden callees that have a namesake in the closure.",
    "C15": " Round 14: batches under the function's own context arguments.",
    "C18": " Round 14: configuration files addressed by bare name / relative path.",
    "C19": " Round 14: the read-only flag arriving as text from a quoted template.",
}
for _pid, _extra in ROUND14.items():
    _l, _t, _text, _n, _r = CHECKS[_pid]
    CHECKS[_pid] = (_l, _t, _text + _extra, _n, _r)

ROUND15 = {
    "C03": " Round 15: clones made right below their function, above a helper; interpreters with a late registration.",
    "C05": " Round 15: metadata stays forgotten when the call is made again with the same result.",
    "C07": " Round 15: mementos of forgotten / re-memoized calls never read another call's bytes.",
    "C10": " Round 15: a resource looked at twice in one body.",
    "C12": " Round 15: the empty explicit version.",
    "C13": " Round 15: an attribute that starts being served by a module __getattr__; from-scratch oracle for event sequences.",
    "C14": " Round 15: hidden calls with the caller behind chains of modifiers.",
    "C15": " Round 15: dates and their spellings as elements; elements that evaluate batches of their own.",
    "C17": " Round 15: a parent published under a key override whose names the child's store knows too.",
    "C18": " Round 15: repositories that share a name.",
    "C19": " Round 15: the same null-storage call made repeatedly within one invocation.",
}
for _pid, _extra in ROUND15.items():
    _l, _t, _text, _n, _r = CHECKS[_pid]
    CHECKS[_pid] = (_l, _t, _text + _extra, _n, _r)

ROUND16 = {
    "C02": " Round 16: everything in the cluster forgotten, then the call made again.",
    "C06": " Round 16: a version with slashes in the directly driven cache.",
    "C07": " Round 16: a recorded failure with a non-ASCII message.",
    "C09": " Round 16: a cluster described by a configuration dictionary, first used by the threads.",
    "C10": " Round 16: a callee released under a second version between a memoized sub-call and its caller.",
    "C11": " Round 16: documents read once before their function was defined, then again.",
    "C14": " Round 16: a hidden call back to a function running further up the stack.",
    "C17": " Round 16: small containers that JSON would not give back as they are.",
    "C18": " Round 16: explicit but empty clusters= / repos= arguments.",
}
for _pid, _extra in ROUND16.items():
    _l, _t, _text, _n, _r = CHECKS[_pid]
    CHECKS[_pid] = (_l, _t, _text + _extra, _n, _r)

ROUND17 = {
    "C02": " Round 17: a function that finishes a nested call's result in place and hands on the same object.",
    "C15": " Round 17: elements that share an argument object, evaluated by a body that uses its arguments up.",
}
for _pid, _extra in ROUND17.items():
    _l, _t, _text, _n, _r = CHECKS[_pid]
    CHECKS[_pid] = (_l, _t, _text + _extra, _n, _r)

NOT_BUILT = "check not built yet in this round (design in DESIGN.md §4); will be claimed once its monitor exists"


def main():
    checks = []
    for pid in ALL:
        if pid not in CHECKS:
            continue
        level, technique, text, note, ref = CHECKS[pid]
        checks.append({
            "property_id": pid,
            "quick_cmd": "./check %s --tier quick" % pid,
            "thorough_cmd": "./check %s --tier thorough" % pid,
            "evidence_file": "evidence/%s.json" % pid,
            "replay_cmd_template": "./check %s --replay {path}" % pid,
            "engine": "vf",
            "level_claimed": {"category": level, "text": text, "design_ref": ref},
            "level_note": note,
            "technique": technique,
        })
    manifest = {
        "version": 1,
        "setup_cmd": "./setup.sh",
        "hooks": {
            "guard": "TWOSIGMA_MEMENTO_VERIF",
            "enable": "no source hooks: checks observe and perturb from outside (sys.monitoring, sys.addaudithook, rebinding of module-level names); ./check exports TWOSIGMA_MEMENTO_VERIF=1 and imports the working tree of /repo via PYTHONPATH",
            "baseline_off_cmd": "cd /repo && /venv/bin/python -m pytest -ra -q -p no:cacheprovider --timeout=900 --continue-on-collection-errors",
            "source_commits": [],
            "add_only": True,
        },
        "engines": [{
            "name": "vf", "path": "vf/",
            "serves_properties": sorted(CHECKS),
            "kind_free_text": "runtime-monitoring harness: seeded workload generators, pristine forked case processes, recorders/monitors, reference models, fault and schedule injection",
        }],
        "checks": checks,
        "not_applicable": [{"property_id": p, "reason": NOT_BUILT} for p in ALL if p not in CHECKS],
        "notes": "All verdicts come from monitors observing executions of the real code (runtime monitoring). Exit 0 = held on everything explored, 1 = VIOLATION, 2 = INCONCLUSIVE (monitor starved / watchdog).",
    }
    with open(os.path.join(HERE, "MANIFEST.json"), "w") as f:
        json.dump(manifest, f, indent=1)
        f.write("\n")


if __name__ == "__main__":
    main()
