#!/bin/bash
# usage: tools/seed_recheck.sh C07-3 [check ids...]  -- applies a kept seeded change to a scratch worktree and runs checks
s=$1; shift; pid=${s%-*}; props="${*:-$pid}"
wt=/tmp/recheck-$s
git -C /repo worktree add -q --detach $wt $(git -C /repo rev-parse HEAD) || exit 9
base=$(python3 -c "import json;print(json.load(open('/verif/seeded/$s/meta.json')).get('base','').split()[0])" 2>/dev/null)
[ -n "$base" ] && git -C $wt checkout -q --detach $base
ok=0
git -C $wt apply /verif/seeded/$s/patch.diff 2>/dev/null && ok=1
if [ $ok = 0 ] && [ -z "$base" ] && [ -f /verif/seeded/$s/patch-rebased.diff ]; then
  git -C $wt apply /verif/seeded/$s/patch-rebased.diff 2>/dev/null && ok=1
fi
if [ $ok = 0 ]; then
  git -C $wt apply --3way /verif/seeded/$s/patch.diff 2>/dev/null && ok=1 || { git -C $wt reset -q --hard; }
fi
if [ $ok = 1 ]; then
  for p in $props; do
    o=$(VF_NO_EVIDENCE=1 VERIF_REPO=$wt /verif/check $p --tier ${TIER:-quick} 2>&1); rc=$?
    echo "$s vs $p: exit=$rc $(echo "$o" | grep -E 'witness\[' | head -1 | cut -c1-200)"
  done
else
  echo "$s: PATCH DOES NOT APPLY on ${base:-HEAD}"
fi
git -C /repo worktree remove --force $wt
