#!/bin/bash
# usage: tools/seed_try.sh C05 [check ids]   -- applies a sub-agent's change (already verified) in its worktree and runs checks only
id=$1; shift; props="${*:-$id}"
wt=/tmp/seed-$id; out=/tmp/seed-$id-out
cd $wt || exit 9
git checkout -q -- . ; git clean -fdq
git checkout -q --detach $(git -C /repo rev-parse HEAD)
git apply $out/patch.diff || git apply --3way $out/patch.diff || { echo "PATCH DOES NOT APPLY"; exit 8; }
for p in $props; do
  o=$(VF_NO_EVIDENCE=1 VERIF_REPO=$wt /verif/check $p --tier ${TIER:-quick} 2>&1); rc=$?
  echo "== check $p ${TIER:-quick}: exit=$rc $(echo "$o" | grep -E 'witness\[|INCONCLUSIVE' | head -2 | cut -c1-400)"
done
git checkout -q -- . ; git clean -fdq
