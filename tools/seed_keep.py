#!/usr/bin/env python3
"""usage: tools/seed_keep.py C05 'needs...' 'ran...' caught_by  -- copies a confirmed seeded change into /verif/seeded/<id>/"""
import json, os, shutil, sys
pid, needs, ran, caught = sys.argv[1:5]
src = "/tmp/seed-%s-out" % pid
n = 1
while os.path.exists("/verif/seeded/%s-%d" % (pid, n)):
    n += 1
dst = "/verif/seeded/%s-%d" % (pid, n)
os.makedirs(dst)
for f in ("patch.diff", "demo.py", "notes.md"):
    shutil.copy(os.path.join(src, f), dst)
json.dump({"property": pid, "origin": "independent sub-agent given only the property text and a scratch worktree",
           "needs_to_manifest": needs, "confirmed": ran, "caught_by": caught}, open(os.path.join(dst, "meta.json"), "w"), indent=1)
print(dst)
