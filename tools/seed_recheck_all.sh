#!/bin/bash
# Re-runs every kept seeded change against the check recorded as catching it; prints one line per seed.
cd "$(dirname "$0")/.."
for d in seeded/*/; do
  s=$(basename $d)
  c=$(python3 -c "import json,re;m=json.load(open('seeded/$s/meta.json'));print(re.search(r'C\d\d', m.get('caught_by','') or m['property']).group(0))")
  tools/seed_recheck.sh $s $c
done
