#!/bin/bash
# usage: tools/seed_verify.sh C05 [extra check ids]   -- verifies a sub-agent's seeded change and runs the checks against it
id=$1; shift; props="$id $*"
wt=/tmp/seed-$id; out=/tmp/seed-$id-out
cd $wt || exit 9
git checkout -q -- . ; git clean -fdq
git checkout -q --detach $(git -C /repo rev-parse HEAD)   # seeds are verified against the current repaired tree
echo "== demo on clean tree"; PYTHONPATH=$wt /venv/bin/python $out/demo.py >/dev/null 2>&1; echo "   exit=$?"
git apply $out/patch.diff || { echo "PATCH DOES NOT APPLY"; exit 8; }
echo "== files: $(git diff --stat | tail -1)"
echo "== suite with change: $(PYTHONPATH=$wt /venv/bin/python -m pytest -q -p no:cacheprovider --timeout=900 tests 2>&1 | tail -1)"
echo "== demo with change"; PYTHONPATH=$wt /venv/bin/python $out/demo.py >/dev/null 2>&1; echo "   exit=$?"
for p in $props; do
  for tier in quick ${THOROUGH:+thorough}; do
    o=$(VF_NO_EVIDENCE=1 VERIF_REPO=$wt /verif/check $p --tier $tier 2>&1); rc=$?
    echo "== check $p $tier: exit=$rc $(echo "$o" | grep -E 'witness\[' | head -2 | cut -c1-300)"
    [ $rc -eq 1 ] && break
  done
done
git checkout -q -- . ; git clean -fdq
