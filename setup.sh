#!/bin/bash
# Offline setup: nothing is fetched or installed. Byte-compiles nothing into /repo; only
# checks that the interpreter and the tree under test are usable.
set -e
cd "$(dirname "${BASH_SOURCE[0]}")"
export PYTHONDONTWRITEBYTECODE=1
PYTHONPATH="${VERIF_REPO:-/repo}:$PWD" /venv/bin/python - <<'PY'
import twosigma.memento, vf.core, vf.domain, vf.storeops, vf.recorder
print("vf setup ok: memento from", twosigma.memento.__file__)
PY
mkdir -p evidence
