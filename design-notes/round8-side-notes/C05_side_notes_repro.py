import os, sys, tempfile, shutil, textwrap, importlib
root = tempfile.mkdtemp(prefix="c05_side_")
os.makedirs(root + "/mods")
open(root + "/mods/c05_side_fns.py", "w").write(textwrap.dedent('''
    import twosigma.memento as m
    @m.memento_function(cluster="c05", version="1")
    def f(x):
        return "same"
'''))
sys.path.insert(0, root + "/mods")
import twosigma.memento as m
from twosigma.memento import ConfigurationRepository, Environment, FunctionCluster
from twosigma.memento.storage_filesystem import FilesystemStorageBackend
from twosigma.memento.storage_memory import MemoryStorageBackend
mod = importlib.import_module("c05_side_fns")
f = mod.f
def env(storage):
    m.Environment.set(Environment(name="e", base_dir=root + "/env", repos=[ConfigurationRepository(name="r", clusters={"c05": FunctionCluster(name="c05", storage=storage)})]))
# 1. with-data metadata shared by calls with byte-identical results
fs = FilesystemStorageBackend(path=root + "/fs1")
env(fs)
f(1); f(2)
f.put_metadata("note", b"for-1", 1, store_with_data=True)
f.put_metadata("note", b"for-2", 2, store_with_data=True)
print("1. fs   get_metadata(note, 1) =", f.get_metadata("note", args=(1,)), " (dictionary: b'for-1')")
mem = MemoryStorageBackend(); env(mem)
f(1); f(2)
f.put_metadata("note", b"for-1", 1, store_with_data=True)
f.put_metadata("note", b"for-2", 2, store_with_data=True)
print("1. mem  get_metadata(note, 1) =", f.get_metadata("note", args=(1,)))
# 1b forgotten with-data metadata of call 1 leaks to call 2?
fs = FilesystemStorageBackend(path=root + "/fs1b"); env(fs)
f(1); f(2)
f.put_metadata("note", b"for-1", 1, store_with_data=True)
print("1b. fs  get_metadata(note, 2) =", f.get_metadata("note", args=(2,)), " (dictionary: None)")
# 2. metadata of a never-memoized call and forget_function
from twosigma.memento.reference import FunctionReferenceWithArgHash
for name, st in (("fs", FilesystemStorageBackend(path=root + "/fs2")), ("mem", MemoryStorageBackend())):
    env(st)
    c = f.fn_reference().with_args(7).fn_reference_with_arg_hash()
    st.write_metadata(c, "k", b"v")
    st.forget_function(f.fn_reference())
    print("2.", name, "read_metadata after forget_function =", st.read_metadata(c, "k"))
# 3. limit=0
for name, st in (("fs", FilesystemStorageBackend(path=root + "/fs3")), ("mem", MemoryStorageBackend())):
    env(st)
    f(1); f(2)
    print("3.", name, "len(list_mementos(limit=0)) =", len(f.list_mementos(limit=0)))
shutil.rmtree(root)
