"""Reproducer for the side notes of seed C17 (behaviour of the UNCHANGED tree).
Run: PYTHONPATH=<tree> /venv/bin/python side_notes_repro.py   (self-contained)"""
import os, sys, tempfile
_mods = tempfile.mkdtemp(prefix="c17_side_mods_")
open(os.path.join(_mods, "c17_side.py"), "w").write(r"""
import twosigma.memento as m
from twosigma.memento.partition import InMemoryPartition
from twosigma.memento.storage_filesystem import OnDiskPartition

@m.memento_function(cluster="A", version="1")
def parent_a():
    return InMemoryPartition({"a": 1, "b": 2})

@m.memento_function(cluster="B", version="1")
def child_b():
    p = InMemoryPartition({"b": 3})
    p._merge_parent = parent_a()
    return p

@m.memento_function(cluster="A", version="1")
def child_of_unserialized():
    parent = InMemoryPartition({"a": 1, "b": 2})
    p = InMemoryPartition({"b": 3})
    p._merge_parent = parent
    return p

@m.memento_function(cluster="A", version="1")
def child_of_staged():
    parent = parent_a()
    od = OnDiskPartition()
    od["snapshot"] = parent
    p = InMemoryPartition({"b": 3, "od": od})
    p._merge_parent = parent
    return p
""")
import shutil
sys.path.insert(0, _mods)
import twosigma.memento as m
from twosigma.memento import Environment, ConfigurationRepository, FunctionCluster
from twosigma.memento.storage_filesystem import FilesystemStorageBackend
base = tempfile.mkdtemp()
cache = int(sys.argv[1]) if len(sys.argv) > 1 else None
A = FilesystemStorageBackend(path=base + "/A", memory_cache_mb=cache)
B = FilesystemStorageBackend(path=base + "/B", memory_cache_mb=cache)
m.Environment.set(Environment(name="e", base_dir=base, repos=[ConfigurationRepository(name="r", clusters={
    "A": FunctionCluster(name="A", storage=A), "B": FunctionCluster(name="B", storage=B)})]))
import c17_side as s
def show(label, fn):
    try:
        r = fn()
        print(label, type(r).__name__, list(r.list_keys()), end=" ")
        for k in r.list_keys():
            try: print(k, "=", r.get(k), end="; ")
            except Exception as e: print(k, "RAISED", type(e).__name__, end="; ")
        print("| memento:", fn.memento() is not None)
    except Exception as e:
        print(label, "RAISED", repr(e))
def forget():
    for b in (A, B):
        if b._memory_cache: b._memory_cache.forget_everything()
print("--- staged parent (fresh)")
show("first ", s.child_of_staged); forget(); show("reread", s.child_of_staged)
print("--- cross cluster")
show("first ", s.child_b); forget(); show("reread", s.child_b)
print("--- unserialized parent")
show("first ", s.child_of_unserialized); forget(); show("reread", s.child_of_unserialized)
print("--- staged parent")
show("first ", s.child_of_staged); forget(); show("reread", s.child_of_staged)
shutil.rmtree(base); shutil.rmtree(_mods)
