import sys, tempfile, shutil
sys.path.insert(0, "/tmp/seed-C10-scratch")
import twosigma.memento as m
from twosigma.memento import Environment
d = tempfile.mkdtemp()
m.Environment.set(Environment(name="x", base_dir=d))
import sidemod
try:
    print(sidemod.parent())
    ref = sidemod.child.fn_reference().with_args({1: "a", 2: "b"})
    print("actual call hash ", ref.arg_hash, sidemod.child.memento({1:"a",2:"b"}) is not None)
    rec = sidemod.parent.memento().invocation_metadata.invocations[0]
    print("recorded hash    ", rec.arg_hash, rec.args)
    print(sidemod.parent.memento().trace())
except Exception as e:
    import traceback; traceback.print_exc()
try:
    print(sidemod.parent2())
    for rec in sidemod.parent2.memento().invocation_metadata.invocations:
        print(rec.arg_hash, rec.args, sidemod.child2.memento(*rec.args) is not None)
except Exception as e:
    import traceback; traceback.print_exc()
shutil.rmtree(d)
