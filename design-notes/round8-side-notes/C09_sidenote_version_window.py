"""
Side note for C09 (UNCHANGED tree): two threads make the first calls of an automatically
versioned function whose version changed since it was registered (it mentions a memento
function that is defined further down in the module). Thread A is suspended at a function
call inside memento.py (the construction of the new FunctionReference in
MementoFunction._update_fn_reference, i.e. after `_calculated_version` was updated and
before `_fn_reference` is); thread B makes its whole call in that window.

Observed: the body of f runs twice for f(1), and the store holds f(1) under two versions.
The schedule is forced by wrapping FunctionReference.__init__ (thread A waits there).
"""
import os, shutil, sys, tempfile, textwrap, threading

tmp = tempfile.mkdtemp(prefix="c09_sidenote_")
sys.path.insert(0, tmp)
with open(os.path.join(tmp, "c09_sn_counts.py"), "w") as f:
    f.write("import threading\nL = threading.Lock()\nC = {}\n"
            "def bump(k):\n    with L:\n        C[k] = C.get(k, 0) + 1\n")
with open(os.path.join(tmp, "c09_sn_fns.py"), "w") as f:
    f.write(textwrap.dedent('''
        import twosigma.memento as m
        import c09_sn_counts

        @m.memento_function
        def f(x):
            c09_sn_counts.bump(("f", x))
            return g(x) + 1

        @m.memento_function          # defined after f: f's version changes on its first call
        def g(x):
            return x * 2
        '''))

import twosigma.memento as m
m.Environment.set(m.Environment(name="c09_sidenote", base_dir=tmp))
import c09_sn_fns, c09_sn_counts
import twosigma.memento.reference as reference

original_init = reference.FunctionReference.__init__
a_in_window, resume_a = threading.Event(), threading.Event()

def init(self, memento_fn, *args, **kwargs):
    if (threading.current_thread().name == "A" and memento_fn is c09_sn_fns.f
            and not a_in_window.is_set()):
        a_in_window.set()
        resume_a.wait(10)
    return original_init(self, memento_fn, *args, **kwargs)

reference.FunctionReference.__init__ = init

results = {}
def call(name):
    try:
        results[name] = c09_sn_fns.f(1)
    except BaseException as e:  # noqa
        results[name] = repr(e)

a = threading.Thread(target=call, args=("A",), name="A"); a.start()
assert a_in_window.wait(10)
b = threading.Thread(target=call, args=("B",), name="B"); b.start(); b.join(20)
resume_a.set(); a.join(20)

print("results:", results)
print("body executions:", c09_sn_counts.C)
print("memoized functions:", sorted(r.qualified_name for r in m.list_memoized_functions()))
bad = c09_sn_counts.C.get(("f", 1)) != 1
shutil.rmtree(tmp, ignore_errors=True)
sys.exit(1 if bad else 0)
