import twosigma.memento as m

@m.memento_function(version="1")
def child(d):
    return len(d)

@m.memento_function(version="1")
def parent():
    return child({1: "a", 2: "b"})

@m.memento_function(version="1")
def child2(x):
    return 1

@m.memento_function(version="1")
def parent2():
    return child2(float("nan")) + child2(1e400)
