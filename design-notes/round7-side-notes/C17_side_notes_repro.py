import os, sys, tempfile, shutil
sys.path.insert(0, os.path.dirname(os.path.abspath(__file__)))
import twosigma.memento as m
from twosigma.memento import ConfigurationRepository, Environment, FunctionCluster
from twosigma.memento.storage_filesystem import FilesystemStorageBackend
import side_fns as f
work = tempfile.mkdtemp()
def env(cache):
    m.Environment.set(Environment(name="e", base_dir=work, repos=[ConfigurationRepository(name="r", clusters={
        "A": FunctionCluster(name="A", storage=FilesystemStorageBackend(path=work+"/A", memory_cache_mb=cache)),
        "B": FunctionCluster(name="B", storage=FilesystemStorageBackend(path=work+"/B", memory_cache_mb=cache)),
    })]))
def show(label, p):
    print(label, type(p).__name__, list(p.list_keys()))
    for k in p.list_keys():
        try: print("   ", k, repr(p.get(k)))
        except Exception as e: print("   ", k, "ERROR", type(e).__name__, e)
which = sys.argv[1]
if which == "cross":
    env(None)
    show("child_b returned", f.child_b())
    show("child_b read back", f.child_b())
else:
    env(16)
    f.parent_a()          # cached InMemoryPartition
    f.wrapper_a()         # stages the cached object into a temp data source
    show("child_a returned", f.child_a())
    env(None)
    show("child_a read back", f.child_a())
shutil.rmtree(work, ignore_errors=True)
