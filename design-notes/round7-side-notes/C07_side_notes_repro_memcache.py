import os, sys, tempfile, shutil, importlib
import numpy as np
work = tempfile.mkdtemp(prefix="c07_side4_")
os.makedirs(work + "/mods")
open(work + "/mods/c07_side4_fns.py", "w").write('''
import numpy as np
import twosigma.memento as m
from twosigma.memento.result import KeyOverrideResult
import c07_side4_state as state

@m.memento_function(cluster="side", version="1")
def big(n):
    return KeyOverrideResult(result=np.full(300000, float(state.get())), key_override="big/shared")
''')
open(work + "/mods/c07_side4_state.py", "w").write('''
_v = [1]
def get(): return _v[0]
def set(x): _v[0] = x
''')
sys.path.insert(0, work + "/mods")
import twosigma.memento as m
from twosigma.memento import Environment, ConfigurationRepository, FunctionCluster
from twosigma.memento.storage_filesystem import FilesystemStorageBackend
Environment.set(Environment(name="e", base_dir=work, repos=[ConfigurationRepository(name="r", clusters={
    "side": FunctionCluster(name="side", storage=FilesystemStorageBackend(path=work + "/s", memory_cache_mb=1))})]))
st = Environment.get().get_cluster("side").storage
fns = importlib.import_module("c07_side4_fns")
state = importlib.import_module("c07_side4_state")
v1 = fns.big(1)
m1 = fns.big.memento(1)
print("m1 reads", st.read_result(m1)[0])
fns.big.forget(1)
state.set(2)
v2 = fns.big(1)   # kept alive
print("v2", v2[0], "m1 now reads", st.read_result(m1)[0], "(stored for m1: 1.0)")
shutil.rmtree(work)
