"""Side note reproducer: unchanged tree, auto-versioned function whose version changed since
it was decorated (it mentions a function defined later in the module); first two calls are
concurrent, A preempted in MementoFunction._update_dependencies between
`self._calculated_version = version` and `self._update_fn_reference()`."""
import os, shutil, sys, tempfile, textwrap, threading

work = tempfile.mkdtemp(prefix="c09_side_")
try:
    log_path = os.path.join(work, "executions.log")
    with open(os.path.join(work, "c09_side_fns.py"), "w") as f:
        f.write(textwrap.dedent("""
            import twosigma.memento as m

            LOG = %r

            @m.memento_function
            def outer(x):
                with open(LOG, "a") as f:
                    f.write("%%d\\n" %% x)
                return helper(x) + 1

            def helper(x):          # defined after outer: outer's version changes once it exists
                return x * 2
        """ % log_path))
    sys.path.insert(0, work)
    import twosigma.memento as m
    from twosigma.memento import Environment
    m.Environment.set({"name": "side", "base_dir": work})
    import c09_side_fns
    outer = c09_side_fns.outer

    a_paused, b_done = threading.Event(), threading.Event()
    res, err = {}, {}

    def tracer(frame, event, arg):
        if event == "call" and frame.f_code.co_name == "_update_fn_reference" and not a_paused.is_set():
            a_paused.set()
            b_done.wait(5)
        return None

    def ta():
        sys.settrace(tracer)
        try:
            res["A"] = outer(3)
        except BaseException as e:
            err["A"] = e
        finally:
            sys.settrace(None); a_paused.set()

    def tb():
        a_paused.wait()
        try:
            res["B"] = outer(3)
        except BaseException as e:
            err["B"] = e
        finally:
            b_done.set()

    A, B = threading.Thread(target=ta), threading.Thread(target=tb)
    A.start(); B.start(); A.join(); B.join()
    print("results", res, "errors", err)
    calls = open(log_path).read().split() if os.path.exists(log_path) else []
    print("body executions of outer(3):", calls)
    print("memoized functions:", [str(f.qualified_name) for f in m.list_memoized_functions()])
    sys.exit(1 if (len(calls) != 1 or err) else 0)
finally:
    shutil.rmtree(work, ignore_errors=True)
