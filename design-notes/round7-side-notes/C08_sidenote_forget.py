# Side note reproducer (unchanged tree): a crash just before the rename of a memento's link
# leaves '<key>.link.tmp' in the version directory; a later forget of that call raises.
import json, os, shutil, subprocess, sys, tempfile, textwrap
work = tempfile.mkdtemp(prefix="c08_side_")
try:
    mods = os.path.join(work, "mods"); os.mkdir(mods)
    open(os.path.join(mods, "side_fns.py"), "w").write(textwrap.dedent('''
        from twosigma.memento import memento_function
        @memento_function
        def f(x):
            return x + 1
    '''))
    env_file = os.path.join(work, "env.json")
    json.dump({"name": "side"}, open(env_file, "w"))
    crasher = textwrap.dedent('''
        import os, sys
        sys.path.insert(0, sys.argv[1])
        import twosigma.memento as m
        m.Environment.set(sys.argv[2])
        import side_fns
        seen = []
        def hook(event, args):
            if event == "os.rename" and str(args[1]).endswith(".memento.json.link"):
                os._exit(9)      # the process dies just before the memento's link is moved into place
        sys.addaudithook(hook)
        side_fns.f(1)
    ''')
    p = subprocess.run([sys.executable, "-c", crasher, mods, env_file])
    print("crashed process exit code:", p.returncode)
    sys.path.insert(0, mods)
    import twosigma.memento as m
    m.Environment.set(env_file)
    import side_fns
    print("f(1) =", side_fns.f(1), "; memento:", side_fns.f.memento(1) is not None)
    try:
        side_fns.f.forget(1)
        print("forget(1) fine")
    except Exception as e:
        print("forget(1) raised", repr(e))
    print("memento after forget:", side_fns.f.memento(1) is not None, "; f(1) =", side_fns.f(1))
finally:
    shutil.rmtree(work, ignore_errors=True)
