import os, sys, shutil, tempfile, subprocess, json
root = tempfile.mkdtemp(prefix="side_")
pkg = os.path.join(root, "sidepkg"); os.mkdir(pkg); open(os.path.join(pkg, "__init__.py"), "w").close()
envf = os.path.join(root, "env.json"); open(envf, "w").write('{"name": "side"}')
ED1 = '''
import twosigma.memento as m
def first(x):
    return x + 1
def second(x):
    raise ValueError("boom")
def guarded(x):
    a, b = first, second
    try:
        p = a(x)
        q = b(x)
    except ValueError:
        return -1
    return p + q
@m.memento_function
def f(x):
    try:
        return guarded(x)
    except ValueError:
        return -2
def make(k):
    def inner(x):
        return x + k
    return inner
h = make(1)
@m.memento_function
def g(x):
    return h(x)
'''
ED2 = ED1.replace('''    a, b = first, second
    try:
        p = a(x)
        q = b(x)
    except ValueError:
        return -1
    return p + q''', '''    a, b = first, second
    try:
        p = a(x)
    except ValueError:
        return -1
    q = b(x)
    return p + q''').replace("h = make(1)", "h = make(2)")
CHILD = '''
import sys, json, importlib
import twosigma.memento as m
m.Environment.set(sys.argv[1])
mod = importlib.import_module("sidepkg.prog")
print(json.dumps({n: [getattr(mod, n)(5), getattr(mod, n).fn(5), getattr(mod,n).version()] for n in ("f", "g")}))
'''
for ed in (ED1, ED2):
    open(os.path.join(pkg, "prog.py"), "w").write(ed)
    env = dict(os.environ); env["PYTHONPATH"] = root + os.pathsep + env.get("PYTHONPATH", ""); env["PYTHONDONTWRITEBYTECODE"]="1"
    p = subprocess.run([sys.executable, "-c", CHILD, envf], env=env, capture_output=True, text=True)
    print(p.stdout.strip().splitlines()[-1] if p.returncode == 0 else p.stderr)
shutil.rmtree(root)
