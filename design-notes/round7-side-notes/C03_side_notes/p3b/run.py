import sys
sys.path.insert(0, ".")
import modq
print(modq.f.version(), [str(r) for r in modq.f.hash_rules()])
