import functools
from twosigma.memento import memento_function

def h(k, x):
    return k * x

def logged(fn):
    @functools.wraps(fn)
    def wrapper(*a, **kw):
        return fn(*a, **kw)
    return wrapper

triple = logged(functools.partial(h, 3))

@memento_function
def f(x):
    return triple(x)
