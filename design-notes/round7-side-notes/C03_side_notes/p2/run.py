import sys, tempfile
sys.path.insert(0, ".")
import moda, modb
for m in (moda, modb):
    print(m.__name__, m.f.version(), m.g.version(), m.g1.version(), [str(r) for r in m.f.hash_rules()])
