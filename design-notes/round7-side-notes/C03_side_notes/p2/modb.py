from twosigma.memento import memento_function

@memento_function
def g(a, b):
    return h(a) + b

g1 = g.partial(1)

def h(a):
    return a * 2

@memento_function
def f(x):
    return g1(x)
