from twosigma.memento import memento_function

def h(a):
    return a * 2

@memento_function
def g(a, b):
    return h(a) + b

g1 = g.partial(1)

@memento_function
def f(x):
    return g1(x)
