import sys, tempfile
sys.path.insert(0, ".")
import modp
print(modp.f.version(), [str(r) for r in modp.f.hash_rules()])
