from twosigma.memento import memento_function

@memento_function
def g(a, b):
    return a + b

g1 = g.partial(1)

@memento_function
def f(x):
    return g(x, x) + g1(x)
