import functools
from twosigma.memento import memento_function

class Scaler:
    def __init__(self, k):
        self.k = k
    def __call__(self, x):
        return x * self.k

def logged(fn):
    @functools.wraps(fn)
    def wrapper(*a, **kw):
        return fn(*a, **kw)
    return wrapper

triple = logged(Scaler(3))

@memento_function
def f(x):
    return triple(x)
