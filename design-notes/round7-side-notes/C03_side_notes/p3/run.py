import sys
sys.path.insert(0, ".")
import modw
print(modw.f.version(), [str(r) for r in modw.f.hash_rules()])
