import os, sys, tempfile, shutil, hashlib, pickle, importlib, glob
work = tempfile.mkdtemp(prefix="c07_side_")
os.makedirs(work + "/mods")
open(work + "/mods/c07_side_fns.py", "w").write('''
import twosigma.memento as m
from twosigma.memento.result import KeyOverrideResult

@m.memento_function(cluster="side", version="1")
def plain(n):
    return {"n": n, "pad": "y" * 40}

@m.memento_function(cluster="side", version="1")
def plain2(n):
    return {"n": n, "pad": "y" * 40}

@m.memento_function(cluster="side", version="1")
def poison(key, n):
    return KeyOverrideResult(result="something else %d" % n, key_override=key)
''')
sys.path.insert(0, work + "/mods")
import twosigma.memento as m
from twosigma.memento import Environment, ConfigurationRepository, FunctionCluster
from twosigma.memento.storage_filesystem import FilesystemStorageBackend

def env(path):
    Environment.set(Environment(name="e", base_dir=work, repos=[ConfigurationRepository(name="r", clusters={
        "side": FunctionCluster(name="side", storage=FilesystemStorageBackend(path=path))})]))
    return Environment.get().get_cluster("side").storage

def scan(root):
    bad = []
    per_key = {}
    for p in glob.glob(root + "/c/.versions/*/*"):
        if ".meta." in os.path.basename(p):
            continue
        h = hashlib.sha256(open(p, "rb").read()).hexdigest()
        per_key.setdefault(os.path.basename(p), []).append(p)
        if h != os.path.basename(p):
            bad.append(p)
    return bad, {k: v for k, v in per_key.items() if len(v) > 1}

fns = importlib.import_module("c07_side_fns")

# 1. with-data metadata under the empty key
st = env(work + "/s1")
fns.plain(1)
print("1 before:", scan(work + "/s1"))
fns.plain.put_metadata("", b"oops", 1, store_with_data=True)
print("1 after put_metadata('', store_with_data=True):", scan(work + "/s1"))
try:
    print("1 read:", st.read_result(fns.plain.memento(1)))
except Exception as e:
    print("1 read fails:", type(e).__name__, e)

# 2. relative store path and chdir
os.makedirs(work + "/cwd1/sub")
os.chdir(work + "/cwd1")
st = env("relstore")
fns.plain(2)
os.chdir(work + "/cwd1/sub")
st = env("../relstore")
fns.plain2(2)
print("2 dup:", scan(work + "/cwd1/relstore"))
os.chdir("/tmp")

# 3. override key inside c/
st = env(work + "/s3")
target = hashlib.sha256(pickle.dumps({"n": 3, "pad": "y" * 40}, protocol=5)).hexdigest()
fns.poison("c/" + target, 3)
print("3 scan:", scan(work + "/s3"))
print("3 plain(3) returns", fns.plain(3), "memento reads", st.read_result(fns.plain.memento(3)))
shutil.rmtree(work)
