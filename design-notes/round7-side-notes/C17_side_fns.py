from twosigma.memento import memento_function
from twosigma.memento.partition import InMemoryPartition
from twosigma.memento.storage_filesystem import OnDiskPartition

@memento_function(cluster="A", version="1")
def parent_a():
    return InMemoryPartition({"p": "from-parent", "q": "parent-q"})

@memento_function(cluster="B", version="1")
def child_b():
    c = InMemoryPartition({"q": "child-q"})
    c._merge_parent = parent_a()
    return c

# staging clobber: cached parent is put into an OnDiskPartition as a value, then used as merge parent
@memento_function(cluster="A", version="1")
def wrapper_a():
    od = OnDiskPartition()
    od["inner"] = parent_a()
    return od

@memento_function(cluster="A", version="1")
def child_a():
    c = InMemoryPartition({"q": "child-q"})
    c._merge_parent = parent_a()
    return c
