import sys, os, tempfile, shutil, textwrap
d = tempfile.mkdtemp()
pk = os.path.join(d, "pkx"); os.makedirs(pk)
open(os.path.join(pk, "__init__.py"), "w").write("")
open(os.path.join(pk, "util.py"), "w").write(textwrap.dedent('''
import functools
def deco(fn):
    @functools.wraps(fn)
    def w(*a, **k):
        return fn(*a, **k)
    return w
'''))
open(os.path.join(pk, "a.py"), "w").write(textwrap.dedent('''
import functools
from twosigma.memento import memento_function
from pkx.util import deco

def local_deco(fn):
    @functools.wraps(fn)
    def w(*a, **k):
        return fn(*a, **k)
    return w

@memento_function
def leaf():
    return 1

@memento_function
def leaf2():
    return 2

@deco
def helper():
    return leaf()

@local_deco
def helper_local():
    return leaf()

hl = lambda: leaf()

@memento_function
def f():            # plain helper wrapped by a decorator from another module
    return helper()

@memento_function
def f_local():      # plain helper wrapped by a decorator from the same module
    return helper_local()

@memento_function
def f2():           # lambda helper
    return hl()

@memento_function
@deco
def g():            # memento function wrapping a decorated function
    return leaf()

@memento_function
def shadow():       # never refers to the global leaf2
    def inner():
        leaf2 = 3
        return leaf2
    return inner()
'''))
sys.path.insert(0, d)
from twosigma.memento import Environment
os.makedirs(d + "/env"); open(d + "/env/env.json", "w").write('{"name": "side"}')
before = Environment.get(); Environment.set(d + "/env/env.json")
import pkx.a as a
for fn in (a.f, a.f_local, a.f2, a.g, a.shadow):
    deps = fn.dependencies()
    print(fn.fn.__name__, "transitive", sorted(x.fn.__name__ for x in deps.transitive_memento_fn_dependencies()),
      "direct", sorted(x.fn.__name__ for x in deps.direct_memento_fn_dependencies()),
      "graph edges", [(r.src, r.target) for r in deps.df().itertuples()])
for fn in (a.f, a.g):
    try:
        print(fn.fn.__name__, "call ->", fn())
    except Exception as e:
        print(fn.fn.__name__, "call ->", type(e).__name__, str(e)[:90])
Environment.set(before)
shutil.rmtree(d)
