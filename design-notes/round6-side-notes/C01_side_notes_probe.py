import os, sys, json, subprocess, tempfile, shutil, textwrap

CASES = {
 "explicit_version_concat": (
  '''
from twosigma.memento import memento_function
@memento_function(version="1")
def g1():
    return 10
@memento_function(version="12")
def g2():
    return 100
@memento_function
def f():
    return g1() + g2()
''', '''
from twosigma.memento import memento_function
@memento_function(version="11")
def g1():
    return 20
@memento_function(version="2")
def g2():
    return 200
@memento_function
def f():
    return g1() + g2()
'''),
 "closure_helper": (
  '''
from twosigma.memento import memento_function
def make_adder(n):
    def add(x):
        return x + n
    return add
helper = make_adder(3)
@memento_function
def f():
    return helper(1)
''', '''
from twosigma.memento import memento_function
def make_adder(n):
    def add(x):
        return x + n
    return add
helper = make_adder(4)
@memento_function
def f():
    return helper(1)
'''),
 "dict_key_order": (
  '''
from twosigma.memento import memento_function
TABLE = {"a": 1, "b": 2}
@memento_function
def f():
    return list(TABLE)[0]
''', '''
from twosigma.memento import memento_function
TABLE = {"b": 2, "a": 1}
@memento_function
def f():
    return list(TABLE)[0]
'''),
 "dict_key_type": (
  '''
from twosigma.memento import memento_function
TABLE = {1: "x"}
@memento_function
def f():
    return TABLE.get(1)
''', '''
from twosigma.memento import memento_function
TABLE = {"1": "x"}
@memento_function
def f():
    return TABLE.get(1)
'''),
 "list_vs_tuple": (
  '''
from twosigma.memento import memento_function
SEQ = (1, 2)
@memento_function
def f():
    return isinstance(SEQ, tuple)
''', '''
from twosigma.memento import memento_function
SEQ = [1, 2]
@memento_function
def f():
    return isinstance(SEQ, tuple)
'''),
}
DRIVER = '''
import sys, json
sys.path.insert(0, sys.argv[1])
import twosigma.memento as m
m.Environment.set(sys.argv[2])
import pmod.mod as mod
try:
    print("RESULT", json.dumps([mod.f(), mod.f.version()]))
except Exception as e:
    print("RESULT", json.dumps([type(e).__name__, str(e)]))
'''
def run(root):
    p = subprocess.run([sys.executable, os.path.join(root, "driver.py"), root, os.path.join(root, "env.json")], capture_output=True, text=True)
    for l in p.stdout.splitlines():
        if l.startswith("RESULT"): return json.loads(l[7:])
    return p.stderr[-2000:]
for name, (a, b) in CASES.items():
    root = tempfile.mkdtemp()
    os.makedirs(root + "/pmod")
    open(root + "/pmod/__init__.py", "w").close()
    open(root + "/env.json", "w").write('{"name":"p"}')
    open(root + "/driver.py", "w").write(DRIVER)
    open(root + "/pmod/mod.py", "w").write(a)
    ra = run(root)
    shutil.rmtree(root + "/pmod/__pycache__", ignore_errors=True)
    open(root + "/pmod/mod.py", "w").write(b)
    rb = run(root)
    # expected for B
    ns = {}
    exec(b.replace("from twosigma.memento import memento_function", "def memento_function(*a, **k):\n    return a[0] if a else (lambda fn: fn)"), ns)
    print(name, "A:", ra, "B:", rb, "expected B:", ns["f"]())
    shutil.rmtree(root)
