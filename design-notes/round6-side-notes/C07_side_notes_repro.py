import hashlib, importlib, os, pickle, shutil, sys, tempfile, textwrap
import twosigma.memento as m
from twosigma.memento import Environment, ConfigurationRepository, FunctionCluster
from twosigma.memento.storage_filesystem import FilesystemStorageBackend, _FilesystemDataSource

base = tempfile.mkdtemp(prefix="c07_side_")
V = ["victim", 1]
W = ["something", "else"]
key = "c/" + hashlib.sha256(pickle.dumps(V, protocol=5)).hexdigest()
src = textwrap.dedent('''
    import twosigma.memento as m
    from twosigma.memento.result import KeyOverrideResult
    from twosigma.memento.partition import InMemoryPartition

    @m.memento_function(cluster="side", version="1")
    def squatter():
        return KeyOverrideResult(%r, key_override=%r)

    @m.memento_function(cluster="side", version="1")
    def victim():
        return %r

    @m.memento_function(cluster="side", version="1")
    def empty_override_partition():
        return KeyOverrideResult(InMemoryPartition({"k": 1}), key_override="")
''' % (W, key, V))
os.makedirs(base + "/mods"); open(base + "/mods/side_fns.py", "w").write(src); sys.path.insert(0, base + "/mods")
Environment.set(Environment(name="e", base_dir=base, repos=[ConfigurationRepository(name="r", clusters={
    "side": FunctionCluster(name="side", storage=FilesystemStorageBackend(path=base + "/data"))})]))
f = importlib.import_module("side_fns")
f.squatter()
print("victim() computed :", f.victim())
print("victim() memoized :", f.victim())
mem = f.victim.memento()
print("victim content key:", mem.content_key)

# 2nd note: where would an empty-string override put partition values? (record, do not write)
orig = _FilesystemDataSource.output
def recording_output(self, k, data):
    print("output() asked to write key", repr(k.key), "->", self._get_non_versioned_link_path(k.key))
    if k.key.startswith("/"):
        raise IOError("not writing outside the store in this reproducer")
    return orig(self, k, data)
_FilesystemDataSource.output = recording_output
f.empty_override_partition()
shutil.rmtree(base)
