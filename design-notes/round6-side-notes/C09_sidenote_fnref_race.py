"""
Side note reproducer (UNCHANGED tree): two threads call an automatically versioned
function right after a global variable it reads was changed (so its version must change).
Thread A is preempted inside MementoFunction._update_dependencies between
`self._calculated_version = version` and the call of `self._update_fn_reference()`; thread B
then calls the same function: it sees the new _calculated_version, concludes nothing changed and
uses the stale _fn_reference (old version), so it is served the value memoized for the OLD code.
"""
import os, shutil, sys, tempfile, threading, textwrap

work = tempfile.mkdtemp(prefix="c09side_")
os.makedirs(os.path.join(work, "mods"))
with open(os.path.join(work, "mods", "c09side_fns.py"), "w") as f:
    f.write(textwrap.dedent('''
        from twosigma.memento import memento_function

        K = 1

        @memento_function
        def f(x):
            return x + K
    '''))
sys.path.insert(0, os.path.join(work, "mods"))

import twosigma.memento as m
from twosigma.memento.runner_local import LocalRunnerBackend
from twosigma.memento.storage_filesystem import FilesystemStorageBackend

m.Environment.set(m.Environment(name="side", base_dir=work, repos=[m.ConfigurationRepository(
    name="repo", clusters={"default": m.FunctionCluster(
        name="default", storage=FilesystemStorageBackend(path=os.path.join(work, "data")),
        runner=LocalRunnerBackend())})]))
import c09side_fns as fns

assert fns.f(2) == 3  # memoized for K == 1
fns.K = 100            # from now on f(2) must be 102 (sequentially it is: the version changes)

parked, go_on = threading.Event(), threading.Event()
out = {}

def tracer(frame, event, arg):
    if event == "call" and frame.f_code.co_name == "_update_fn_reference" and not parked.is_set():
        parked.set()
        go_on.wait(30)
    return None

def thread_a():
    sys.settrace(tracer)
    try:
        out["A"] = fns.f(1)
    except BaseException as e:
        out["A"] = e
    finally:
        sys.settrace(None)

def thread_b():
    try:
        out["B"] = fns.f(2)
    except BaseException as e:
        out["B"] = e

a = threading.Thread(target=thread_a); a.start()
assert parked.wait(30)
b = threading.Thread(target=thread_b); b.start(); b.join(30)
go_on.set(); a.join(30)
shutil.rmtree(work, ignore_errors=True)
print("A:", repr(out.get("A")))
print("B:", repr(out.get("B")))
sys.exit(0 if (out.get("A"), out.get("B")) == (101, 102) else 1)
