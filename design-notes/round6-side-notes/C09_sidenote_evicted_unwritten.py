"""
Side note reproducer (UNCHANGED tree): memoize() publishes the memento in the memory cache
before the result and the memento are written to the store (content_key is still None).
  A: f(1) cold; parked in StorageBackendBase.memoize after the cache put, before codec.store.
  B: f(1); its bulk look-up finds A's memento in the cache; parked before it reads the result.
  C: g(0) returns a value that fills the (1 MB) cache, so A's entry is evicted.
  B goes on: cache miss, no weak reference for an int, so it loads from the store with
  content_key None.
"""
import os, shutil, sys, tempfile, threading, textwrap, faulthandler
faulthandler.dump_traceback_later(90, exit=True)

work = tempfile.mkdtemp(prefix="c09side2_")
os.makedirs(os.path.join(work, "mods"))
with open(os.path.join(work, "mods", "c09side2_fns.py"), "w") as f:
    f.write(textwrap.dedent('''
        from twosigma.memento import memento_function

        @memento_function(cluster="side2", version="1")
        def f(x):
            return x + 1

        @memento_function(cluster="side2", version="1")
        def g(x):
            return "y" * 1048520
    '''))
sys.path.insert(0, os.path.join(work, "mods"))

import twosigma.memento as m
from twosigma.memento.runner_local import LocalRunnerBackend
from twosigma.memento.storage_filesystem import FilesystemStorageBackend

m.Environment.set(m.Environment(name="side2", base_dir=work, repos=[m.ConfigurationRepository(
    name="repo", clusters={"side2": m.FunctionCluster(
        name="side2",
        storage=FilesystemStorageBackend(path=os.path.join(work, "data"), memory_cache_mb=1),
        runner=LocalRunnerBackend())})]))
import c09side2_fns as fns

out = {}

def parking_tracer(code_name):
    parked, go_on = threading.Event(), threading.Event()
    def tracer(frame, event, arg):
        if event == "call" and frame.f_code.co_name == code_name and not parked.is_set():
            parked.set()
            go_on.wait(30)
        return None
    return tracer, parked, go_on

def caller(name, fn, arg, tracer=None):
    def run():
        if tracer:
            sys.settrace(tracer)
        try:
            out[name] = fn(arg)
        except BaseException as e:
            out[name] = e
        finally:
            sys.settrace(None)
    t = threading.Thread(target=run)
    t.start()
    return t

tr_a, parked_a, go_a = parking_tracer("store")                      # DefaultCodec.store, called by memoize
tr_b, parked_b, go_b = parking_tracer("process_existing_memento")
a = caller("A", fns.f, 1, tr_a); assert parked_a.wait(30)
b = caller("B", fns.f, 1, tr_b); assert parked_b.wait(20)
c = caller("C", fns.g, 0); c.join(30)
go_b.set(); b.join(30)
go_a.set(); a.join(30)
shutil.rmtree(work, ignore_errors=True)
for k in "ABC":
    v = out.get(k)
    print(k + ":", repr(v)[:160])
sys.exit(0 if (out.get("A"), out.get("B")) == (2, 2) else 1)
