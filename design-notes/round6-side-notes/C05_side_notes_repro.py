import datetime, os, shutil, sys, tempfile, textwrap
tmp = tempfile.mkdtemp(prefix="c05side_")
os.makedirs(tmp + "/mods")
open(tmp + "/mods/c05side_fns.py", "w").write(textwrap.dedent('''
    import twosigma.memento as m
    @m.memento_function(version="1")
    def f(x):
        return x
    @m.memento_function(version="1")
    def g(x):
        return x
'''))
sys.path.insert(0, tmp + "/mods")
import twosigma.memento as m
from twosigma.memento.metadata import InvocationMetadata, Memento, ResultType
from twosigma.memento.storage_filesystem import FilesystemStorageBackend
from twosigma.memento.storage_memory import MemoryStorageBackend
import c05side_fns as fns

def mk(call, value):
    return Memento(time=datetime.datetime.now(datetime.timezone.utc),
        invocation_metadata=InvocationMetadata(runtime=datetime.timedelta(seconds=1), fn_reference_with_args=call,
            result_type=ResultType.from_object(value), invocations=[], resources=[]),
        function_dependencies={call.fn_reference}, runner={}, correlation_id="x", content_key=None)

f1 = fns.f.fn_reference().with_args(1)
f2 = fns.f.fn_reference().with_args(2)
g1 = fns.g.fn_reference().with_args(1)

# A: stale memento handle poisons the cache
b = FilesystemStorageBackend(path=tmp + "/A", memory_cache_mb=4/1024)
b.memoize(None, mk(f1, "old"), "old")
m_old = b.get_memento(f1.fn_reference_with_arg_hash())
b.memoize(None, mk(f1, "N" * 20000), "N" * 20000)   # oversize: not cached
print("A read via old handle:", repr(b.read_result(m_old))[:20])
m_now = b.get_memento(f1.fn_reference_with_arg_hash())
print("A fresh lookup then read:", repr(b.read_result(m_now))[:20], "(last written was 'NNNN...')")

# B: plain metadata shadows later with-data metadata of the same key
b = FilesystemStorageBackend(path=tmp + "/B")
mm = mk(f1, "v"); b.memoize(None, mm, "v")
h = f1.fn_reference_with_arg_hash()
b.write_metadata(h, "log", b"first")
b.write_metadata(h, "log", b"second", store_with_content_key=mm.content_key)
print("B read:", b.read_metadata(h, "log"), "(last written b'second')")

# C: with-data metadata shared by calls with equal results
b = FilesystemStorageBackend(path=tmp + "/C")
ma = mk(f1, "same"); b.memoize(None, ma, "same")
mb = mk(g1, "same"); b.memoize(None, mb, "same")
b.write_metadata(f1.fn_reference_with_arg_hash(), "log", b"for f", store_with_content_key=ma.content_key)
b.write_metadata(g1.fn_reference_with_arg_hash(), "log", b"for g", store_with_content_key=mb.content_key)
print("C read f:", b.read_metadata(f1.fn_reference_with_arg_hash(), "log"), "(last written for f: b'for f')")

# D: metadata on a never-memoized call, then forget_function
for name, b in (("memory", MemoryStorageBackend()), ("filesystem", FilesystemStorageBackend(path=tmp + "/D"))):
    b.memoize(None, mk(f1, "v"), "v")
    b.write_metadata(f2.fn_reference_with_arg_hash(), "log", b"orphan")
    b.forget_function(fns.f.fn_reference())
    print("D", name, "read after forget_function:", b.read_metadata(f2.fn_reference_with_arg_hash(), "log"))
shutil.rmtree(tmp)
