"""Catalogue of deliberate property-breaking mutations (textual edits against the current tree)."""
SB = "twosigma/memento/storage_base.py"
SF = "twosigma/memento/storage_filesystem.py"
SM = "twosigma/memento/storage_memory.py"
RL = "twosigma/memento/runner_local.py"
RN = "twosigma/memento/runner.py"
RF = "twosigma/memento/reference.py"
CH = "twosigma/memento/code_hash.py"
MM = "twosigma/memento/memento.py"
SE = "twosigma/memento/serialization.py"
EX = "twosigma/memento/exception.py"
MD = "twosigma/memento/metadata.py"
BA = "twosigma/memento/base.py"
CF = "twosigma/memento/configuration.py"

MUTANTS = []


def mut(id, prop, file, old, new, checks=None):
    MUTANTS.append({"id": id, "property": prop, "edits": [(file, old, new)], **({"checks": checks} if checks else {})})


# ---- C05
mut("c06-forget-fn-prefix", "C06", SB, 'qualified_name_slash = qualified_name + "/"', 'qualified_name_slash = qualified_name')
mut("c05-forget-call-keeps-cache", "C05", SB, '''        if self._memory_cache:
            self._memory_cache.forget_call(fn_with_arg_hash)
        self._metadata_source.forget_call(fn_with_arg_hash)''', '''        self._metadata_source.forget_call(fn_with_arg_hash)''')
mut("c05-mem-forget-keeps-metadata", "C05", SM, '''        if memento_key in self.metadata:
            del self.metadata[memento_key]''', '''        pass''')
mut("c05-fs-forget-call-prefix", "C05", SB, '''            file_prefix=os.path.basename(call_path_prefix),
            recursive=False,
        ):
            self.data_source.delete_all_versions(key, False)''', '''            file_prefix=os.path.basename(call_path_prefix)[:1],
            recursive=False,
        ):
            self.data_source.delete_all_versions(key, False)''')
mut("c05-oversize-stale", "C05", SB, '''            # Do not keep serving a previously cached value for this memento
            self._evict(cache_key)
            return''', '''            return''', checks=["C05", "C06"])
mut("c05-mem-list-empty", "C05", SM, '''            if memento_dict
''', '''            if True
''')
# ---- C06
mut("c06-mark-used-front", "C06", SB, '''            pass
        self.lru_deque.append(cache_key)

    def _evict''', '''            pass
        self.lru_deque.appendleft(cache_key)

    def _evict''')
mut("c06-evict-no-subtract", "C06", SB, '''            self.memory_usage -= entry.obj_size
''', '''            pass
''')
mut("c06-put-no-evict-existing", "C06", SB, '''        # Remove any existing cached items for this memento
        self._evict(cache_key)
''', '''        # Remove any existing cached items for this memento
''')
mut("c06-fit-test-ge", "C06", SB, '''        if obj_size > self.memory_cache_bytes:
            # Do not''', '''        if obj_size >= self.memory_cache_bytes:
            # Do not''')
mut("c06-evict-mru", "C06", SB, '''            self._evict(self.lru_deque.popleft())''', '''            self._evict(self.lru_deque.pop())''')
mut("c06-forget-everything-keeps-usage", "C06", SB, '''    def forget_everything(self):
        self.memory_usage = 0
        self.cache.clear()''', '''    def forget_everything(self):
        self.cache.clear()''')
# ---- C07
mut("c07-always-output", "C07", SB, '''                if data_source.exists_nonversioned(key):''', '''                if False and data_source.exists_nonversioned(key):''')
mut("c07-forget-deletes-data", "C07", SB, '''        self._metadata_source.forget_call(fn_with_arg_hash)
        # Note that we do not remove the storage associated with the call as it could
        # be shared by other mementos.

    def forget_everything''', '''        m_ = self._metadata_source.get_mementos([fn_with_arg_hash])[0]
        self._metadata_source.forget_call(fn_with_arg_hash)
        if m_ is not None and m_.content_key is not None:
            self._data_source.delete_all_versions(DataSourceKey(m_.content_key.key), False)

    def forget_everything''')
mut("c07-override-reuses-version", "C07", SF, '''        uuid = str(uuid4())
        versioned_key = VersionedDataSourceKey(key=key.key, version=uuid)''', '''        uuid = str(uuid4()) if key.key.startswith(("c/", "m/")) else "fixed"
        versioned_key = VersionedDataSourceKey(key=key.key, version=uuid)''')
# ---- C19
mut("c19-forget-after-delete", "C19", SB, '''    def forget_call(self, fn_with_arg_hash: FunctionReferenceWithArgHash) -> None:
        if self.read_only:
            raise ValueError("Cannot forget with a storage backend that is read-only")
        if self._memory_cache:
            self._memory_cache.forget_call(fn_with_arg_hash)
        self._metadata_source.forget_call(fn_with_arg_hash)''', '''    def forget_call(self, fn_with_arg_hash: FunctionReferenceWithArgHash) -> None:
        if self._memory_cache:
            self._memory_cache.forget_call(fn_with_arg_hash)
        self._metadata_source.forget_call(fn_with_arg_hash)
        if self.read_only:
            raise ValueError("Cannot forget with a storage backend that is read-only")''')
mut("c19-metadata-write-unchecked", "C19", SB, '''        assert fn_with_arg_hash is not None
        if not self.read_only:''', '''        assert fn_with_arg_hash is not None
        if True:''')
mut("c19-readonly-wrong-key", "C19", "twosigma/memento/storage.py", '''self.read_only = config.get("readonly", False)''', '''self.read_only = config.get("read_only", False)''')
mut("c19-memoize-writes-data", "C19", SB, '''    def memoize(self, key_override: str, memento: Memento, result: object) -> None:
        if self.read_only:
            return

        if self._memory_cache:''', '''    def memoize(self, key_override: str, memento: Memento, result: object) -> None:
        if self.read_only:
            self.codec.store(memento.invocation_metadata.result_type, self._data_source, key_override, result)
            return

        if self._memory_cache:''')
mut("c19-null-runner-runs", "C19", "twosigma/memento/runner_null.py", '''        raise RuntimeError("Null runner refusing to run functions")''', '''        from .runner_local import LocalRunnerBackend
        return LocalRunnerBackend().batch_run(context, storage_backend, fn_reference_with_args, log_runner_backend, caller_memento)''')
# ---- C02
mut("c02-bool-as-number", "C02", MD, '''        if isinstance(obj, bool):
            return ResultType.boolean
        if isinstance(obj, str):''', '''        if isinstance(obj, str):''')
mut("c02-memoize-nonmemoized", "C02", RL, '''            except NonMemoizedException:
                # If the exception is marked not to be memoized, just raise it
                raise
''', '''''')
mut("c02-drop-message", "C02", EX, '''                    return ref(
                        "{}. Original stack trace follows:\\n{}".format(
                            self.message, self.stack_trace
                        )
                    )''', '''                    return ref("memoized exception")''')
mut("c02-return-before-memoize", "C02", RL, '''            if not storage_backend.is_memoized(
                fn_reference_with_args.fn_reference, fn_reference_with_args.arg_hash
            ):''', '''            if isinstance(result, bytes):
                return result
            if not storage_backend.is_memoized(
                fn_reference_with_args.fn_reference, fn_reference_with_args.arg_hash
            ):''')
mut("c02-ignore-result-swallows", "C02", RN, '''        if (
            ignore_result
            and existing_memento.invocation_metadata.result_type != ResultType.exception
        ):''', '''        if ignore_result:''')
mut("c02-date-as-timestamp", "C02", MD, '''        if isinstance(obj, datetime.date):
            return ResultType.date
        if isinstance(obj, list):''', '''        if isinstance(obj, datetime.date):
            return ResultType.timestamp
        if isinstance(obj, list):''')
# ---- C17
mut("c17-own-keys-only", "C17", SB, '''                obj._output_keys = dict(index)''', '''                obj._output_keys = output_keys''')
mut("c17-parent-wins", "C17", SB, '''                output_keys[k] = index_entry
                index[k] = index_entry''', '''                output_keys[k] = index_entry
                index.setdefault(k, index_entry)''')
mut("c17-attr-mismatch", "C17", SB, '''            if hasattr(obj, "_output_keys") and hasattr(obj, "_parent_data_source"):''', '''            if hasattr(obj, "_output_keys") and hasattr(obj, "_data_source_x"):''', checks=["C17", "C02"])
# ---- C04
mut("c04-no-sort", "C04", RF, '''for (k, v) in list(sorted(obj.items(), key=lambda t: t[0]))''', '''for (k, v) in list(obj.items())''')
mut("c04-ignore-context", "C04", RF, '''        if self.context_args is not None and len(self.context_args) > 0:
            hash_kwargs["_memento_context_args"] = self.context_args''', '''        pass''', checks=["C04", "C16"])
mut("c04-partial-args-reversed", "C04", RF, '''            result[parameter_names[i]] = partial_args[i]''', '''            result[parameter_names[len(partial_args) - 1 - i]] = partial_args[i]''')
mut("c04-no-normalize-before-body", "C04", RF, '''        normalized_kwargs = (
            ArgumentHasher.normalize(kwargs) if kwargs else {}
        )  # type: dict
        self.kwargs = normalized_kwargs
        normalized_context_args''', '''        normalized_kwargs = (
            {k_: (str(v_) if isinstance(v_, bool) else v_) for k_, v_ in ArgumentHasher.normalize(kwargs).items()} if kwargs else {}
        )  # type: dict
        self.kwargs = normalized_kwargs
        normalized_context_args''')
mut("c04-bool-int-collide", "C04", RF, '''            return json.dumps(obj)

        if isinstance(obj, list):''', '''            return json.dumps(int(obj) if isinstance(obj, bool) else obj)

        if isinstance(obj, list):''')
# ---- C11
mut("c11-find-not-rfind", "C11", SE, '''hash_index = state.rfind("#")''', '''hash_index = state.find("#")''')
mut("c11-rename-field", "C11", SE, '''            "correlationId": memento.correlation_id,''', '''            "correlation_id": memento.correlation_id,''')
mut("c11-rename-field-both", "C11", SE, '''            "correlationId": memento.correlation_id,''', '''            "correlation": memento.correlation_id,''')
mut("c11-no-z", "C11", SE, '''return obj.isoformat().replace("+00:00", "Z")''', '''return obj.isoformat()''')
mut("c11-lose-parameter-names", "C11", SE, '''            "parameterNames": obj.parameter_names,''', '''            "parameterNames": None,''')
mut("c11-runtime-int", "C11", SE, '''"runtimeSeconds": obj.runtime.total_seconds(),''', '''"runtimeSeconds": int(obj.runtime.total_seconds()),''')
# ---- C10
mut("c10-batch-cached-no-propagate", "C10", RL, '''                if calling_frame:
                    propagate_dependencies(
                        caller_memento=calling_frame.memento,
                        result_memento=existing_memento,
                    )
''', '''''')
mut("c10-only-direct-dep", "C10", RL, '''    parent_dependencies |= result_memento.function_dependencies''', '''    pass''')
mut("c10-resource-wrong-frame", "C10", "twosigma/memento/resource_function.py", '''        if caller_frame:
            caller_frame.memento.invocation_metadata.resources.append(handle)''', '''        if caller_frame and call_stack.depth() < 2:
            caller_frame.memento.invocation_metadata.resources.append(handle)''')
mut("c10-invocation-dedupe", "C10", RL, '''    caller_memento.invocation_metadata.invocations.append(fn_reference_with_args)''', '''    if fn_reference_with_args not in caller_memento.invocation_metadata.invocations:
        caller_memento.invocation_metadata.invocations.append(fn_reference_with_args)''')
# ---- C16
mut("c16-always-inherit", "C16", RL, '''        if context.recursive.context_args is None:
            # Only update''', '''        if True:
            # Only update''')
mut("c16-merge-not-replace", "C16", RL, '''        if context.recursive.context_args is None:
            # Only update the context args from the call stack if not overridden in this call
            context = context.update_recursive(
                "context_args", calling_frame.recursive_context.context_args
            )
''', '''        if True:
            context = context.update_recursive(
                "context_args", dict(calling_frame.recursive_context.context_args or {}, **(context.recursive.context_args or {})) or None
            )
''')
mut("c16-ctx-as-kwargs", "C16", RL, '''                    **fn_reference_with_args.effective_kwargs
                )''', '''                    **fn_reference_with_args.effective_kwargs_with_context_args
                )''')
mut("c16-prevent-ignored", "C16", RL, '''    if calling_frame and calling_frame.recursive_context.prevent_further_calls:''', '''    if False and calling_frame.recursive_context.prevent_further_calls:''')

# ---- C01
mut("c01-no-consts", "C01", CH, '''                tuple([hash_if_code_object(x) for x in o.co_consts]),''', '''                tuple([hash_if_code_object(x) for x in o.co_consts if isinstance(x, CodeType)]),''')
mut("c01-no-names", "C01", CH, '''                o.co_names,
''', '''''')
mut("c01-no-bytecode", "C01", CH, '''                base64.b64encode(o.co_code).decode("utf-8"),''', '''                len(o.co_code),''')
mut("c01-skip-global-vars", "C01", CH, '''HashRule.all_rules = [
    MementoFunctionHashRule,
    NonMementoFunctionHashRule,
    GlobalVariableHashRule,  # must go last
]''', '''HashRule.all_rules = [
    MementoFunctionHashRule,
    NonMementoFunctionHashRule,
]''')
mut("c01-var-did-change-false", "C01", CH, '''        new_value = self._serialize_value(new_var)
        return self.last_value != new_value''', '''        return False''')
mut("c01-no-descend-helpers", "C01", CH, '''        for dep in list_dotted_names(src_fn):
            # noinspection PyUnresolvedReferences''', '''        for dep in []:
            # noinspection PyUnresolvedReferences''')
mut("c01-defaults-not-hashed", "C01", CH, '''            if o is top_level_code and (defaults or kwdefaults):''', '''            if False:''')
mut("c01-kwdefaults-not-hashed", "C01", CH, '''                        sorted([k, stable_repr(v)] for (k, v) in kwdefaults.items()),''', '''                        sorted(k for (k, v) in kwdefaults.items()),''')
mut("c01-helper-did-change-by-name", "C01", CH, '''        new_fn = self.resolver()
        return self.src_fn != new_fn''', '''        new_fn = self.resolver()
        return getattr(self.src_fn, "__qualname__", None) != getattr(new_fn, "__qualname__", None)''', checks=["C01", "C13"])
mut("c01-memento-did-change-by-type", "C01", CH, '''        return new_fn is not self.memento_fn''', '''        return False''', checks=["C01", "C13"])
mut("c01-no-alternates-in-hash", "C01", MM, '''                if rule.alternates:
                    # The same''', '''                if False:
                    # The same''')
mut("c01-wrapper-locals", "C01", CH, '''        inner_fn = inspect.unwrap(fn)''', '''        inner_fn = fn''', checks=["C01", "C14"])
mut("c01-nested-code-not-hashed", "C01", CH, '''        if isinstance(o, CodeType):
            sha256 = hashlib.sha256()''', '''        if isinstance(o, CodeType) and o is not top_level_code:
            return "code"
        if isinstance(o, CodeType):
            sha256 = hashlib.sha256()''')
# ---- C03
mut("c03-frozenset-repr", "C03", CH, '''        elif isinstance(o, frozenset):
            # repr()''', '''        elif False:
            # repr()''')
mut("c03-rules-unsorted", "C03", MM, '''        ordered_hash_rules = sorted(hash_rules)''', '''        ordered_hash_rules = list(hash_rules)''')
mut("c03-hash-filename", "C03", CH, '''                o.co_flags,
                # o.co_lnotab''', '''                o.co_flags, o.co_filename,
                # o.co_lnotab''')
mut("c03-hash-lineno", "C03", CH, '''                o.co_flags,
                # o.co_lnotab''', '''                o.co_flags, o.co_firstlineno,
                # o.co_lnotab''')
mut("c03-generation-in-version", "C03", MM, '''        sha256 = hashlib.sha256()
        for rule in ordered_hash_rules:''', '''        sha256 = hashlib.sha256()
        sha256.update(str(len(MementoFunction._global_fn_version_cache)).encode())
        for rule in ordered_hash_rules:''', checks=["C03", "C13"])
# ---- C08
mut("c08-memento-before-data", "C08", SB, '''        # Write data
        result_type = memento.invocation_metadata.result_type
        content_key = self.codec.store(
            result_type, self._data_source, key_override, result
        )''', '''        # Write data
        result_type = memento.invocation_metadata.result_type
        self._metadata_source.put_memento(memento)
        content_key = self.codec.store(
            result_type, self._data_source, key_override, result
        )''')
mut("c08-ioerror-not-swallowed", "C08", RL, '''                except IOError:
                    log.warning(
                        "IO Error while writing memoized result.", exc_info=True
                    )
                    memoization_status = "memoization failed to write result"''', '''                except FileExistsError:
                    memoization_status = "memoization failed to write result"''')
MUTANTS.append({"id": "c08-link-in-place-and-exists", "property": "C08", "edits": [
    (SF, '''            os.replace(str(tmp_path), str(non_versioned_path))''', '''            open(str(non_versioned_path), "w").write(open(str(tmp_path)).read())
            os.unlink(str(tmp_path))'''),
    (SF, '''            result = path.is_file()''', '''            result = path.exists()''')]})
mut("c08-data-link-before-object", "C08", SF, '''        with versioned_path.open(mode="wb") as f:
            shutil.copyfileobj(data, f)
        self._write_non_versioned_link(versioned_key)''', '''        versioned_path.touch()
        self._write_non_versioned_link(versioned_key)
        with versioned_path.open(mode="wb") as f:
            shutil.copyfileobj(data, f)''')
# ---- C09
mut("c09-no-recheck-in-mutex", "C09", RL, '''            existing_memento = storage_backend.get_memento(
                fn_reference_with_args.fn_reference_with_arg_hash()
            )
            if existing_memento:
                existing_memento_result = process_existing_memento(''', '''            existing_memento = None
            if existing_memento:
                existing_memento_result = process_existing_memento(''')
mut("c09-fresh-lock", "C09", RL, '''    with _memento_fn_mutex_lock:
        return _memento_fn_mutex[
            (
                fn_reference_with_args.fn_reference.qualified_name,
                fn_reference_with_args.arg_hash,
            )
        ]''', '''    return RLock()''')
mut("c09-cache-unlocked-put", "C09", SB, '''    @_synchronized
    def put(''', '''    def put(''')
mut("c09-cache-unlocked-read", "C09", SB, '''    @_synchronized
    def read_result(''', '''    def read_result(''')
mut("c09-shared-call-stack", "C09", "twosigma/memento/call_stack.py", '''_call_stack_thread_local = threading.local()''', '''class _Shared:
    pass


_call_stack_thread_local = _Shared()''')
# ---- C12
mut("c12-greedy-cluster", "C12", RF, '''r"((?P<cluster>.*?)::)?''', '''r"((?P<cluster>.*)::)?''')
mut("c12-version-first-hash", "C12", RF, '''(#(?P<version>.*))?$"''', '''(#(?P<version>[^#]*))?"''')
mut("c12-escape-one-side", "C12", SF, '''            entries = list(walk_path())''', '''            entries = [DataSourceKey(e.key.replace("::", ":")) for e in walk_path()]''')
mut("c12-default-cluster-assert", "C12", "twosigma/memento/external.py", '''        if fn_reference is None:
            fn_reference = FunctionReference(
                memento_fn=self,''', '''        assert fn_reference or cluster_name is not None, "Cluster name is required"
        if fn_reference is None:
            fn_reference = FunctionReference(
                memento_fn=self,''')
mut("c12-raise-instead-of-external", "C12", RF, '''            except (ModuleNotFoundError, ValueError, AttributeError):
                # Cannot find module or function. Treat as an external function reference.
                external = True''', '''            except (ModuleNotFoundError, AttributeError):
                # Cannot find module or function. Treat as an external function reference.
                external = True''')
mut("c12-stale-served-as-current", "C12", RF, '''        if version is not None and memento_fn.version() != version:''', '''        if False:''')
# ---- C13
mut("c13-no-generation-bump", "C13", MM, '''            MementoFunction.increment_global_fn_generation(
                reason="registered new function {}".format(''', '''            (lambda **kw: None)(
                reason="registered new function {}".format(''', checks=["C13", "C01"])
mut("c13-skip-did-change-scan", "C13", MM, '''                    if rule.did_change() or any(r.did_change() for r in rule.alternates)''', '''                    if False''', checks=["C13", "C01"])
mut("c13-adopt-cached-version", "C13", MM, '''                elif self._calculated_version is not None:
                    return
''', '''                else:
                    if self._calculated_version is None:
                        self._calculated_version = entry.version
                        self._update_fn_reference()
                    return
''')
mut("c13-undefined-never-changes", "C13", CH, '''        if self.ref_is_global_table:
            return self.symbol in self.ref

        return hasattr(self.ref, self.symbol)''', '''        return False''')
# ---- C14
mut("c14-detected-all-first-level", "C14", CH, '''                required=False,
                root_fn=root_fn,
                first_level=memento_fn is root_fn,''', '''                required=False,
                root_fn=root_fn,
                first_level=True,''')
mut("c14-stop-at-first-memento", "C14", CH, '''        # Add transitive dependencies:
        memento_fn = self.memento_fn
''', '''        # Add transitive dependencies:
        memento_fn = self.memento_fn
        if memento_fn is not root_fn:
            return
''', checks=["C14", "C01"])
mut("c14-ignore-attribute-chains", "C14", CH, '''            eval_attr_result = eval_attr(node)
            if eval_attr_result is not None:
                self.references.add(eval_attr_result)''', '''            eval_attr_result = None''', checks=["C14", "C01"])
mut("c14-validate-direct-only", "C14", MM, '''            for fn in caller.dependencies().transitive_memento_fn_dependencies()''', '''            for fn in caller.dependencies().direct_memento_fn_dependencies()''')
mut("c14-no-validation", "C14", MM, '''        if (
            caller.qualified_name_without_version != self.qualified_name_without_version
            and self.fn_reference().qualified_name not in valid_fns
        ):''', '''        if False:''')
mut("c14-fnarg-nested-not-allowed", "C14", MM, '''            elif isinstance(arg, dict):
                for element in arg.values():
                    refs |= extract_refs(element)''', '''            elif isinstance(arg, dict):
                pass''')
mut("c14-explicit-no-rules", "C14", MM, '''        if self.explicit_version is not None:
            # The version is static, but the dependencies can (and, for the dependency
            # graph, must) still be collected
            self._recompute_version()''', '''        pass''')
# ---- C15
mut("c15-stop-at-first-exception", "C15", RL, '''                except Exception as e:
                    results.append(e)
        return results''', '''                except Exception as e:
                    results.append(e)
                    break
        return results''')
mut("c15-reverse-order", "C15", BA, '''        if raise_first_exception:
            for r in result:
                if isinstance(r, Exception):
                    raise r
''', '''        if raise_first_exception:
            for r in reversed(result):
                if isinstance(r, Exception):
                    raise r
''')
mut("c15-batch-dedupe", "C15", RL, '''        for idx, f in enumerate(arg_list):
            existing_memento_result = ExistingMementoResult(''', '''        seen_ = {}
        for idx, f in enumerate(arg_list):
            if f.arg_hash in seen_:
                continue
            seen_[f.arg_hash] = idx
            existing_memento_result = ExistingMementoResult(''')
mut("c15-map-range-positional", "C15", BA, '''        return {value_list[idx]: result_list[idx] for idx in range(0, len(value_list))}''', '''        return {v: result_list[i] for i, v in enumerate(sorted(set(value_list)))}''')
# ---- C18
mut("c18-cache-from-config-ignored", "C18", SF, '''        if memory_cache_mb is None:
            memory_cache_mb = config.get("memory_cache_mb", None)
''', '''''')
mut("c18-todict-no-metadata-path", "C18", SF, '''        if self.metadata_config_path != self.config_path:
            config["metadata_path"] = self.metadata_config_path
''', '''''')
mut("c18-config-overrides-arg", "C18", SF, '''        config_path = config.get("path", None)
        if path is not None:
            config_path = path''', '''        config_path = config.get("path", None)
        if path is not None and config_path is None:
            config_path = path''')
mut("c18-last-repo-wins", "C18", CF, '''        for repo in self.repos:
            if cluster_name in repo.clusters:
                return repo.clusters[cluster_name]
        return None''', '''        for repo in reversed(self.repos):
            if cluster_name in repo.clusters:
                return repo.clusters[cluster_name]
        return None''')
mut("c18-prepend-appends", "C18", CF, '''        self.repos.insert(0, repo)''', '''        self.repos.append(repo)''')
mut("c18-runner-config-ignored", "C18", CF, '''            runner_type = runner_config["type"]
            self.runner = RunnerBackend.create(runner_type, runner_config)''', '''            runner_type = _DEFAULT_RUNNER_TYPE
            self.runner = RunnerBackend.create(runner_type, runner_config)''')
mut("c18-todict-readonly-lost", "C18", SF, '''        if self.read_only is not None:
            config["readonly"] = self.read_only
        if self.config_path is not None:''', '''        if self.config_path is not None:''')
