"""Catalogue of deliberate property-breaking mutations (textual edits against the current tree)."""
SB = "twosigma/memento/storage_base.py"
SF = "twosigma/memento/storage_filesystem.py"
SM = "twosigma/memento/storage_memory.py"
RL = "twosigma/memento/runner_local.py"
RN = "twosigma/memento/runner.py"
RF = "twosigma/memento/reference.py"
CH = "twosigma/memento/code_hash.py"
MM = "twosigma/memento/memento.py"
SE = "twosigma/memento/serialization.py"
EX = "twosigma/memento/exception.py"
MD = "twosigma/memento/metadata.py"
BA = "twosigma/memento/base.py"
CF = "twosigma/memento/configuration.py"

MUTANTS = []


def mut(id, prop, file, old, new, checks=None):
    MUTANTS.append({"id": id, "property": prop, "edits": [(file, old, new)], **({"checks": checks} if checks else {})})


# ---- C05
mut("c06-forget-fn-prefix", "C06", SB, 'qualified_name_slash = qualified_name + "/"', 'qualified_name_slash = qualified_name')
mut("c05-forget-call-keeps-cache", "C05", SB, '''        if self._memory_cache:
            self._memory_cache.forget_call(fn_with_arg_hash)
        self._metadata_source.forget_call(fn_with_arg_hash)''', '''        self._metadata_source.forget_call(fn_with_arg_hash)''')
mut("c05-mem-forget-keeps-metadata", "C05", SM, '''        if memento_key in self.metadata:
            del self.metadata[memento_key]''', '''        pass''')
mut("c05-fs-forget-call-prefix", "C05", SB, '''            file_prefix=os.path.basename(call_path_prefix),
            recursive=False,
        ):
            self.data_source.delete_all_versions(key, False)''', '''            file_prefix=os.path.basename(call_path_prefix)[:1],
            recursive=False,
        ):
            self.data_source.delete_all_versions(key, False)''')
mut("c05-oversize-stale", "C05", SB, '''            # Do not keep serving a previously cached value for this memento
            self._evict(cache_key)
            return''', '''            return''', checks=["C05", "C06"])
mut("c05-mem-list-empty", "C05", SM, '''            if memento_dict
''', '''            if True
''')
# ---- C06
mut("c06-mark-used-front", "C06", SB, '''            pass
        self.lru_deque.append(cache_key)

    def _evict''', '''            pass
        self.lru_deque.appendleft(cache_key)

    def _evict''')
mut("c06-evict-no-subtract", "C06", SB, '''            self.memory_usage -= entry.obj_size
''', '''            pass
''')
mut("c06-put-no-evict-existing", "C06", SB, '''        # Remove any existing cached items for this memento
        self._evict(cache_key)
''', '''        # Remove any existing cached items for this memento
''')
mut("c06-fit-test-ge", "C06", SB, '''        if obj_size > self.memory_cache_bytes:
            # Do not''', '''        if obj_size >= self.memory_cache_bytes:
            # Do not''')
mut("c06-evict-mru", "C06", SB, '''            self._evict(self.lru_deque.popleft())''', '''            self._evict(self.lru_deque.pop())''')
mut("c06-forget-everything-keeps-usage", "C06", SB, '''    def forget_everything(self):
        self.memory_usage = 0
        self.cache.clear()''', '''    def forget_everything(self):
        self.cache.clear()''')
# ---- C07
mut("c07-always-output", "C07", SB, '''                if data_source.exists_nonversioned(key):''', '''                if False and data_source.exists_nonversioned(key):''')
mut("c07-forget-deletes-data", "C07", SB, '''        self._metadata_source.forget_call(fn_with_arg_hash)
        # Note that we do not remove the storage associated with the call as it could
        # be shared by other mementos.

    def forget_everything''', '''        m_ = self._metadata_source.get_mementos([fn_with_arg_hash])[0]
        self._metadata_source.forget_call(fn_with_arg_hash)
        if m_ is not None and m_.content_key is not None:
            self._data_source.delete_all_versions(DataSourceKey(m_.content_key.key), False)

    def forget_everything''')
mut("c07-override-reuses-version", "C07", SF, '''        uuid = str(uuid4())
        versioned_key = VersionedDataSourceKey(key=key.key, version=uuid)''', '''        uuid = str(uuid4()) if key.key.startswith(("c/", "m/")) else "fixed"
        versioned_key = VersionedDataSourceKey(key=key.key, version=uuid)''')
# ---- C19
mut("c19-forget-after-delete", "C19", SB, '''    def forget_call(self, fn_with_arg_hash: FunctionReferenceWithArgHash) -> None:
        if self.read_only:
            raise ValueError("Cannot forget with a storage backend that is read-only")
        if self._memory_cache:
            self._memory_cache.forget_call(fn_with_arg_hash)
        self._metadata_source.forget_call(fn_with_arg_hash)''', '''    def forget_call(self, fn_with_arg_hash: FunctionReferenceWithArgHash) -> None:
        if self._memory_cache:
            self._memory_cache.forget_call(fn_with_arg_hash)
        self._metadata_source.forget_call(fn_with_arg_hash)
        if self.read_only:
            raise ValueError("Cannot forget with a storage backend that is read-only")''')
mut("c19-metadata-write-unchecked", "C19", SB, '''        assert fn_with_arg_hash is not None
        if not self.read_only:''', '''        assert fn_with_arg_hash is not None
        if True:''')
mut("c19-readonly-wrong-key", "C19", "twosigma/memento/storage.py", '''self.read_only = config.get("readonly", False)''', '''self.read_only = config.get("read_only", False)''')
mut("c19-memoize-writes-data", "C19", SB, '''    def memoize(self, key_override: str, memento: Memento, result: object) -> None:
        if self.read_only:
            return

        if self._memory_cache:''', '''    def memoize(self, key_override: str, memento: Memento, result: object) -> None:
        if self.read_only:
            self.codec.store(memento.invocation_metadata.result_type, self._data_source, key_override, result)
            return

        if self._memory_cache:''')
mut("c19-null-runner-runs", "C19", "twosigma/memento/runner_null.py", '''        raise RuntimeError("Null runner refusing to run functions")''', '''        from .runner_local import LocalRunnerBackend
        return LocalRunnerBackend().batch_run(context, storage_backend, fn_reference_with_args, log_runner_backend, caller_memento)''')
# ---- C02
mut("c02-bool-as-number", "C02", MD, '''        if isinstance(obj, bool):
            return ResultType.boolean
        if isinstance(obj, str):''', '''        if isinstance(obj, str):''')
mut("c02-memoize-nonmemoized", "C02", RL, '''            except NonMemoizedException:
                # If the exception is marked not to be memoized, just raise it
                raise
''', '''''')
mut("c02-drop-message", "C02", EX, '''                    return ref(
                        "{}. Original stack trace follows:\\n{}".format(
                            self.message, self.stack_trace
                        )
                    )''', '''                    return ref("memoized exception")''')
mut("c02-return-before-memoize", "C02", RL, '''            if not storage_backend.is_memoized(
                fn_reference_with_args.fn_reference, fn_reference_with_args.arg_hash
            ):''', '''            if isinstance(result, bytes):
                return result
            if not storage_backend.is_memoized(
                fn_reference_with_args.fn_reference, fn_reference_with_args.arg_hash
            ):''')
mut("c02-ignore-result-swallows", "C02", RN, '''        if (
            ignore_result
            and existing_memento.invocation_metadata.result_type != ResultType.exception
        ):''', '''        if ignore_result:''')
mut("c02-date-as-timestamp", "C02", MD, '''        if isinstance(obj, datetime.date):
            return ResultType.date
        if isinstance(obj, list):''', '''        if isinstance(obj, datetime.date):
            return ResultType.timestamp
        if isinstance(obj, list):''')
# ---- C17
mut("c17-own-keys-only", "C17", SB, '''                obj._output_keys = dict(index)''', '''                obj._output_keys = output_keys''')
mut("c17-parent-wins", "C17", SB, '''                output_keys[k] = index_entry
                index[k] = index_entry''', '''                output_keys[k] = index_entry
                index.setdefault(k, index_entry)''')
mut("c17-attr-mismatch", "C17", SB, '''            if hasattr(obj, "_output_keys") and hasattr(obj, "_parent_data_source"):''', '''            if hasattr(obj, "_output_keys") and hasattr(obj, "_data_source_x"):''', checks=["C17", "C02"])
# ---- C04
mut("c04-no-sort", "C04", RF, '''for (k, v) in list(sorted(obj.items(), key=lambda t: t[0]))''', '''for (k, v) in list(obj.items())''')
mut("c04-ignore-context", "C04", RF, '''        if self.context_args is not None and len(self.context_args) > 0:
            hash_kwargs["_memento_context_args"] = self.context_args''', '''        pass''', checks=["C04", "C16"])
mut("c04-partial-args-reversed", "C04", RF, '''            result[parameter_names[i]] = partial_args[i]''', '''            result[parameter_names[len(partial_args) - 1 - i]] = partial_args[i]''')
mut("c04-no-normalize-before-body", "C04", RF, '''        normalized_kwargs = (
            ArgumentHasher.normalize(kwargs) if kwargs else {}
        )  # type: dict
        self.kwargs = normalized_kwargs
        normalized_context_args''', '''        normalized_kwargs = (
            {k_: (str(v_) if isinstance(v_, bool) else v_) for k_, v_ in ArgumentHasher.normalize(kwargs).items()} if kwargs else {}
        )  # type: dict
        self.kwargs = normalized_kwargs
        normalized_context_args''')
mut("c04-bool-int-collide", "C04", RF, '''            return json.dumps(obj)

        if isinstance(obj, list):''', '''            return json.dumps(int(obj) if isinstance(obj, bool) else obj)

        if isinstance(obj, list):''')
# ---- C11
mut("c11-find-not-rfind", "C11", SE, '''hash_index = state.rfind("#")''', '''hash_index = state.find("#")''')
mut("c11-rename-field", "C11", SE, '''            "correlationId": memento.correlation_id,''', '''            "correlation_id": memento.correlation_id,''')
mut("c11-rename-field-both", "C11", SE, '''            "correlationId": memento.correlation_id,''', '''            "correlation": memento.correlation_id,''')
mut("c11-no-z", "C11", SE, '''return obj.isoformat().replace("+00:00", "Z")''', '''return obj.isoformat()''')
mut("c11-lose-parameter-names", "C11", SE, '''            "parameterNames": obj.parameter_names,''', '''            "parameterNames": None,''')
mut("c11-runtime-int", "C11", SE, '''"runtimeSeconds": obj.runtime.total_seconds(),''', '''"runtimeSeconds": int(obj.runtime.total_seconds()),''')
# ---- C10
mut("c10-batch-cached-no-propagate", "C10", RL, '''                if calling_frame:
                    propagate_dependencies(
                        caller_memento=calling_frame.memento,
                        result_memento=existing_memento,
                    )
''', '''''')
mut("c10-only-direct-dep", "C10", RL, '''    parent_dependencies |= result_memento.function_dependencies''', '''    pass''')
mut("c10-resource-wrong-frame", "C10", "twosigma/memento/resource_function.py", '''        if caller_frame:
            caller_frame.memento.invocation_metadata.resources.append(handle)''', '''        if caller_frame and call_stack.depth() < 2:
            caller_frame.memento.invocation_metadata.resources.append(handle)''')
mut("c10-invocation-dedupe", "C10", RL, '''    caller_memento.invocation_metadata.invocations.append(fn_reference_with_args)''', '''    if fn_reference_with_args not in caller_memento.invocation_metadata.invocations:
        caller_memento.invocation_metadata.invocations.append(fn_reference_with_args)''')
# ---- C16
mut("c16-always-inherit", "C16", RL, '''        if context.recursive.context_args is None:
            # Only update''', '''        if True:
            # Only update''')
mut("c16-merge-not-replace", "C16", RL, '''        if context.recursive.context_args is None:
            # Only update the context args from the call stack if not overridden in this call
            context = context.update_recursive(
                "context_args", calling_frame.recursive_context.context_args
            )
''', '''        if True:
            context = context.update_recursive(
                "context_args", dict(calling_frame.recursive_context.context_args or {}, **(context.recursive.context_args or {})) or None
            )
''')
mut("c16-ctx-as-kwargs", "C16", RL, '''                    **fn_reference_with_args.effective_kwargs
                )''', '''                    **fn_reference_with_args.effective_kwargs_with_context_args
                )''')
mut("c16-prevent-ignored", "C16", RL, '''    if calling_frame and calling_frame.recursive_context.prevent_further_calls:''', '''    if False and calling_frame.recursive_context.prevent_further_calls:''')
