#!/usr/bin/env python3
"""Sensitivity self-test: applies each catalogued mutation to a scratch copy of the tree under
test (outside /repo and /verif), checks that the repository's own test-suite still passes on it
(mutants killed by the suite are reported as 'killed-by-suite'), runs the matching quick check
with VERIF_REPO pointing at the copy and expects exit 1 with a VIOLATION line.

usage: selftest/run.py [--only ID[,ID]] [--prop C06] [--no-suite] [--jobs N]
"""
import argparse
import concurrent.futures
import json
import os
import shutil
import subprocess
import sys
import tempfile

HERE = os.path.dirname(os.path.dirname(os.path.abspath(__file__)))
REPO = os.environ.get("VERIF_REPO", "/repo")
sys.path.insert(0, os.path.join(HERE, "selftest"))
from catalogue import MUTANTS  # noqa: E402


def run_one(mut, suite, tier):
    work = tempfile.mkdtemp(prefix="vf-mutant-")
    try:
        shutil.copytree(os.path.join(REPO, "twosigma"), os.path.join(work, "twosigma"))
        shutil.copytree(os.path.join(REPO, "tests"), os.path.join(work, "tests"))
        for f in ("pyproject.toml",):
            shutil.copy(os.path.join(REPO, f), work)
        for rel, old, new in mut["edits"]:
            p = os.path.join(work, rel)
            s = open(p).read()
            if s.count(old) != 1:
                return {"id": mut["id"], "status": "stale-mutant", "detail": "%s: pattern occurs %d times" % (rel, s.count(old))}
            open(p, "w").write(s.replace(old, new))
        res = {"id": mut["id"], "property": mut["property"]}
        env = dict(os.environ, PYTHONPATH=work, PYTHONDONTWRITEBYTECODE="1", HOME=work)
        imp = subprocess.run(["/venv/bin/python", "-c", "import twosigma.memento"], env=env, cwd=work, capture_output=True, text=True)
        if imp.returncode != 0:
            res["status"] = "does-not-import"
            return res
        if suite:
            t = subprocess.run(["/venv/bin/python", "-m", "pytest", "-q", "-x", "-p", "no:cacheprovider", "--timeout=900", "tests"],
                               env=env, cwd=work, capture_output=True, text=True)
            res["suite"] = "pass" if t.returncode == 0 else "fail"
            if t.returncode != 0:
                res["status"] = "killed-by-suite"
                res["detail"] = t.stdout.strip().split("\n")[-1][:200]
                return res
        outs = []
        caught = False
        for prop in mut.get("checks", [mut["property"]]):
            c = subprocess.run([os.path.join(HERE, "check"), prop, "--tier", tier, "--workers", "4"],
                               env=dict(os.environ, VERIF_REPO=work, VF_NO_EVIDENCE="1"), capture_output=True, text=True, cwd=HERE)
            v = [l for l in c.stdout.split("\n") if l.startswith("VIOLATION")]
            w = [l for l in c.stdout.split("\n") if "witness[" in l]
            outs.append("%s: exit %d%s" % (prop, c.returncode, (" " + w[0].strip()[:160]) if w else ""))
            if c.returncode == 1 and v:
                caught = True
        res["status"] = "caught" if caught else "MISSED"
        res["detail"] = "; ".join(outs)
        return res
    finally:
        shutil.rmtree(work, ignore_errors=True)


def main():
    ap = argparse.ArgumentParser()
    ap.add_argument("--only")
    ap.add_argument("--prop")
    ap.add_argument("--no-suite", action="store_true")
    ap.add_argument("--jobs", type=int, default=4)
    ap.add_argument("--tier", default="quick")
    a = ap.parse_args()
    muts = MUTANTS
    if a.only:
        muts = [m for m in muts if m["id"] in a.only.split(",")]
    if a.prop:
        muts = [m for m in muts if m["property"] == a.prop or a.prop in m.get("checks", [])]
    results = []
    with concurrent.futures.ThreadPoolExecutor(a.jobs) as ex:
        for r in ex.map(lambda m: run_one(m, not a.no_suite, a.tier), muts):
            results.append(r)
            print("%-8s %-34s %-16s %s" % (r.get("property", ""), r["id"], r["status"], r.get("detail", "")[:260]), flush=True)
    missed = [r for r in results if r["status"] == "MISSED"]
    print("\n%d mutants: %d caught, %d missed, %d killed by the repository's suite, %d other" % (
        len(results), sum(r["status"] == "caught" for r in results), len(missed),
        sum(r["status"] == "killed-by-suite" for r in results),
        sum(r["status"] not in ("caught", "MISSED", "killed-by-suite") for r in results)))
    with open(os.path.join(HERE, "selftest", "last_results.json"), "w") as f:
        json.dump(results, f, indent=1)
    sys.exit(1 if missed else 0)


if __name__ == "__main__":
    main()
