"""Opaque execution recorder: the ground truth for "the body ran / ran once / received X".

REC must stay invisible to memento's dependency scan: it is a plain instance (not callable,
no __globals__, rejected by MementoCodec.encode_arg) living in a package different from any
generated program, so `REC.hit(...)` inside a body adds no hash rule and never changes a
function version.
"""
import os
import threading


class Recorder:
    def __init__(self):
        self._lock = threading.Lock()
        self.events = []

    def hit(self, name, *args):
        ev = (name, args)
        with self._lock:
            self.events.append(ev)
        path = os.environ.get("VF_TRACE_FILE")
        if path:
            with open(path, "a") as f:
                f.write("%d\t%s\t%r\n" % (os.getpid(), name, args))
        return None

    def tick(self, name, *args):
        """hit() that also returns a process-unique serial number (a result that identifies the execution)."""
        self.hit(name, *args)
        with self._lock:
            return len(self.events)

    def count(self, name=None):
        with self._lock:
            if name is None:
                return len(self.events)
            return sum(1 for e in self.events if e[0] == name)

    def names(self):
        with self._lock:
            return [e[0] for e in self.events]

    def mark(self):
        with self._lock:
            return len(self.events)

    def since(self, mark):
        with self._lock:
            return list(self.events[mark:])

    def clear(self):
        with self._lock:
            del self.events[:]


REC = Recorder()
TWIN_REC = Recorder()  # used by twin programs, so that their executions are not mistaken for real ones
