"""Runs the repository's own (unedited) test-suite with vf.pytest_monitors switched on."""
import json
import os
import subprocess
import tempfile

from . import core


def run_suite_with_monitors(timeout=900):
    fd, rep = tempfile.mkstemp(prefix="vf-monrep-", suffix=".json")
    os.close(fd)
    home = tempfile.mkdtemp(prefix="vf-home-")
    env = dict(os.environ, VF_MONITOR_REPORT=rep, PYTHONDONTWRITEBYTECODE="1", HOME=home,
               PYTHONPATH=os.pathsep.join([core.REPO, core.HERE]))
    try:
        p = subprocess.run([core.PY, "-m", "pytest", "-q", "-x", "-p", "no:cacheprovider", "-p", "vf.pytest_monitors",
                            "--timeout=900", os.path.join(core.REPO, "tests")], cwd=core.REPO, env=env,
                           capture_output=True, text=True, timeout=timeout)
        with open(rep) as f:
            report = json.load(f)
        report["pytest_tail"] = p.stdout.strip().split("\n")[-1][:200]
        return report
    finally:
        import shutil

        os.unlink(rep)
        shutil.rmtree(home, ignore_errors=True)


def as_case_result(report, monitor_prefix, counter):
    """Turns the report into a check-case result for the monitors whose name starts with monitor_prefix."""
    out = {"viol": [], "nontrivial": [], "obs": {"repo_suite_runs_with_monitors": 1,
                                                 "repo_suite_" + counter: report.get(counter, 0)}}
    for v in report["violations"]:
        if v["monitor"].startswith(monitor_prefix):
            out["viol"].append({"sig": v["monitor"][len(monitor_prefix) + 1:] + " (under the repository's own tests)",
                                "msg": "%s: %s" % (v["test"], v["msg"])})
    if report.get(counter, 0) > 0:
        out["nontrivial"] = ["repo-suite"]
    out["sample"] = {"repository_suite_under_monitors": {k: v for k, v in report.items() if k != "violations"}}
    return out
