"""Call-tree data, generator and closed-form expectations (simulation of the interpreter in
vf.tfuncs on the tree data alone — no memento involved)."""
from . import models

NFUN = 6
QN = ["vf.tfuncs:t0#t", "vf.tfuncs:t1#t", "vf.tfuncs:t2#t", "vf.tfuncs:t3#t", "c::vf.tfuncs:t4#t", "vf.tfuncs:t5#t"]
PARAMS = ["tree", "node", "fnarg", "kw"]


def gen_tree(rng, tree_id, n=None, with_context=False, with_prevent=False, aimed_batch=False, with_mut=False, with_ignore=False):
    """nodes[j] = {"fn": i, "steps": [...], "fail": None|"memoized"|"transient"}; children have larger ids."""
    n = n or rng.randint(2, 7)
    nodes = [{"fn": rng.randrange(NFUN), "steps": [], "fail": None} for _ in range(n)]
    if aimed_batch and n >= 4:
        # the root evaluates one batch over two different nodes of one function (whose subtrees will usually reach
        # different functions)
        a, b = sorted(rng.sample(range(1, n), 2))
        nodes[b]["fn"] = nodes[a]["fn"]
        nodes[0]["steps"].append(["batch", nodes[a]["fn"], [a, b] if rng.random() < 0.7 else [b, a, b]])
    for j in range(n - 1):
        later = list(range(j + 1, n))
        for _ in range(rng.choice([0, 1, 1, 2, 3]) if j else rng.choice([1, 2, 3])):
            c = rng.choice(later)
            f = nodes[c]["fn"]
            r = rng.random()
            if with_context and r < 0.35:
                ctx = rng.choice([{}, {"tenant": rng.choice([1, 2, "x", True, 1.0])}, {"asof": "2020-01-0%d" % rng.randint(1, 3), "k": [1, 2]}])
                nodes[j]["steps"].append(["ctxcall", f, c, ctx])
            elif with_prevent and r < 0.45:
                nodes[j]["steps"].append(["prevent", f, c])
            elif with_mut and r < 0.3:
                nodes[j]["steps"].append(["mutcall", f, c])
            elif with_ignore and r < 0.35:
                if r < 0.2:
                    nodes[j]["steps"].append(["igncall", f, c])
                else:
                    same = [x for x in later if nodes[x]["fn"] == f]
                    nodes[j]["steps"].append(["ignbatch", f, [rng.choice(same) for _ in range(rng.randint(1, 3))]])
            elif r < 0.5:
                nodes[j]["steps"].append(["call", f, c])
            elif r < 0.6:
                nodes[j]["steps"].append(["kwcall", f, c])
            elif r < 0.7:
                nodes[j]["steps"].append(["partial", f, c])
            elif r < 0.82:
                same = [x for x in later if nodes[x]["fn"] == f]
                kids = [rng.choice(same) for _ in range(rng.randint(1, 4))]
                nodes[j]["steps"].append(["batch", f, kids])
            elif r < 0.9:
                nodes[j]["steps"].append(["resource", "res://%s/%d" % (tree_id, rng.randint(0, 3))])
                nodes[j]["steps"].append(["call", f, c])
                if (j + c) % 2:  # (no draw) the body looks at the same resource once more after the call
                    nodes[j]["steps"].append(list(nodes[j]["steps"][-2]))
            else:
                # hand the child a function value; the child calls it for one of its own later nodes
                gl = [x for x in range(c + 1, n)]
                if gl:
                    g = rng.choice(gl)
                    nodes[j]["steps"].append(["passfn", f, c, nodes[g]["fn"]])
                    if (c + g) % 3:  # (no draw) every third child is handed the function value and never applies it
                        nodes[c]["steps"].append(["viaarg", nodes[g]["fn"], g])
                else:
                    nodes[j]["steps"].append(["call", f, c])
    for j in range(1, n):
        r = rng.random()
        if r < 0.12:
            nodes[j]["fail"] = "memoized"
        elif r < 0.17:
            nodes[j]["fail"] = "transient"
    return {"id": tree_id, "nodes": nodes}


class FnArg:
    """Function value handed to a node (index into vf.tfuncs.FUN.fns)."""

    def __init__(self, i):
        self.i = i

    def info(self):
        return (QN[self.i], [], {}, PARAMS)

    def __eq__(self, o):
        return isinstance(o, FnArg) and o.i == self.i

    def __hash__(self):
        return hash(("FnArg", self.i))

    def __repr__(self):
        return "FnArg(t%d)" % self.i


def fn_info(v):
    return v.info() if isinstance(v, FnArg) else None


def arg_hash(tree_id, node, fnarg=None, ctx=None, extra=None):
    bound = {"tree": tree_id, "node": node}
    if fnarg is not None:
        bound["fnarg"] = fnarg
    bound.update(extra or {})
    return models.spec_arg_hash(bound, ctx or None, fn_info)


class Entry:
    """One memo entry (function, node, fnarg, effective context) and what the spec expects of it."""

    def __init__(self, fn, node, fnarg, ctx, extra=None):
        self.fn, self.node, self.fnarg, self.ctx = fn, node, fnarg, ctx
        self.extra = extra or None  # further keyword arguments of the call (values as they were when the call was made)
        self.invocations = []   # [(qualified name, arg hash)]
        self.resources = []     # [(type, url, version)]
        self.deps = set()
        self.children = []      # keys of entries invoked directly (for reachability)
        self.fail = None
        self.prevented = False  # executed under prevent_further_calls

    @property
    def key(self):
        return (self.fn, self.node, self.fnarg.i if self.fnarg else None,
                tuple(sorted((k, repr(v)) for k, v in (self.ctx or {}).items())), self.prevented) + (
                    (tuple(sorted((k, repr(v)) for k, v in self.extra.items())),) if self.extra else ())


def simulate(tree, root_fnarg=None, root_ctx=None):
    """Returns {key: Entry} for every entry reachable from the root call, root key first."""
    entries = {}
    tid = tree["id"]

    def visit(fn, node, fnarg, ctx, prevented=False, extra=None):
        e = Entry(fn, node, fnarg, ctx, extra)
        e.prevented = prevented
        if e.key in entries:
            return entries[e.key]
        entries[e.key] = e
        spec = tree["nodes"][node]
        e.fail = spec.get("fail")
        e.deps.add(QN[fn])

        def sub(cf, c, cfnarg=None, cctx="inherit", prevent=False, extra=None):
            eff = ctx if cctx == "inherit" else (cctx or None)
            if prevented:
                # every nested memento call fails with RuntimeError before anything is recorded
                return None
            ch = visit(cf, c, cfnarg, eff, prevent, extra)
            e.invocations.append((QN[cf], arg_hash(tid, c, cfnarg, eff, extra)))
            e.deps.add(QN[cf])
            e.deps |= ch.deps
            e.children.append(ch.key)
            return ch

        for step in spec["steps"]:
            k = step[0]
            if k in ("call", "kwcall", "partial", "igncall"):
                sub(step[1], step[2])
            elif k == "ignbatch":
                for c in step[2]:
                    sub(step[1], c)
            elif k == "mutcall":
                sub(step[1], step[2], extra={"tag": [node]})
            elif k == "viaarg":
                if fnarg is not None:
                    sub(fnarg.i, step[2])
            elif k == "passfn":
                sub(step[1], step[2], FnArg(step[3]))
            elif k == "batch":
                for c in step[2]:
                    sub(step[1], c)
            elif k == "resource":
                e.resources.append(("vfres", step[1], "v-" + step[1]))
            elif k == "ctxcall":
                sub(step[1], step[2], None, dict(step[3]))
            elif k == "prevent":
                sub(step[1], step[2], None, dict(step[3]) if len(step) > 3 else "inherit", True)
        return e

    visit(tree["nodes"][0]["fn"], 0, root_fnarg, root_ctx or None)
    return entries
