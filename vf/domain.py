"""Value domains (arguments, results) and a total, type-aware equality.

Generators are seeded and size-bounded. Equality never relies on the repository's own
__eq__ implementations: scalars compare by exact type and value (floats by repr, so NaN
equals NaN and -0.0 differs from 0.0), datetimes by naive fields plus utcoffset, numpy by
dtype + array_equal(equal_nan), pandas by .equals plus dtypes and index, containers
recursively, partitions by key set and per-key equality.
"""
import datetime as dt
import math

STRS = ["", "a", "abc", "héllo wörld", "日本語", "quote\"back\\slash", "line\nbreak\ttab",
        "{\"json\": [1,2]}", " ", "null", "true", "0", " é\u0000x", "emoji \U0001F600",
        "a" * 40, "#:/@=+-._", "lone \ud800 surrogate",
        # text that is not in a Unicode normalisation form: decomposed accent, Angstrom / Ohm signs, conjoining jamo
        "de\u0301compose\u0301", "\u212b \u2126", "\u1112\u1161\u11ab",
        # a backslash among plain characters, next to the text that JSON would write with that escape
        "C:\\new", "C:\new", "caf\\u00e9", "caf\u00e9", "tab\\there",
        # the other line endings, and characters that some readers take for one
        "dos\r\nlines\r\n", "old mac\rlines", "unit\x1fsep \x85 next \u2028 line \x0c feed", "\ufeffbom first"]
INTS = [0, 1, -1, 2, 7, 255, -256, 2**31, -(2**31) - 1, 2**63, 2**64 + 1, 10**30, -(10**25)]
FLOATS = [0.0, -0.0, 1.0, -1.5, 0.1, 1e-310, 5e-324, 1e308, -1e308, float("inf"),
          float("-inf"), float("nan"), 3.141592653589793, 1e16, 123456.789]
OFFSETS_MIN = [0, 60, -60, 330, -480, 345, 14 * 60, -12 * 60, 1, -1]


def gen_date(rng):
    y = rng.choice([1, 99, 999, 1000, 1970, 2000, 2024, 9999, rng.randint(1, 9999)])
    m = rng.randint(1, 12)
    d = rng.randint(1, 28)
    return dt.date(y, m, d)


class RuleZone(dt.tzinfo):
    """A time zone with date-dependent offsets (whole minutes): +1:00 from November to March, +2:00 otherwise."""

    def utcoffset(self, d):
        if d is None:
            return None
        return dt.timedelta(hours=1 if d.month in (11, 12, 1, 2, 3) else 2)

    def dst(self, d):
        return dt.timedelta(0)

    def tzname(self, d):
        return "RULE"

    def __repr__(self):
        return "RuleZone()"


def gen_datetime(rng, aware=None):
    d = gen_date(rng)
    us = rng.choice([0, 0, 0, 1, 500000, 999999, rng.randint(0, 999999)])
    t = dt.datetime(d.year, d.month, d.day, rng.randint(0, 23), rng.randint(0, 59),
                    rng.randint(0, 59), us)
    if aware is None:
        aware = rng.random() < 0.5
    if aware:
        off = rng.choice(OFFSETS_MIN)
        # stay inside the representable range once the offset is applied
        if d.year in (1, 9999):
            off = 0
        t = t.replace(tzinfo=dt.timezone(dt.timedelta(minutes=off)))
        if off == 345 and d.year not in (1, 9999):  # (no extra random draw) a zone whose offset depends on the date
            t = t.replace(tzinfo=RuleZone())
    return t


def gen_scalar(rng):
    k = rng.randrange(9)
    if k == 0:
        return None
    if k == 1:
        return rng.random() < 0.5
    if k == 2:
        return rng.choice(INTS) if rng.random() < 0.6 else rng.randint(-1000, 1000)
    if k == 3:
        return rng.choice(FLOATS) if rng.random() < 0.7 else rng.uniform(-1e6, 1e6)
    if k == 4:
        return rng.choice(STRS) if rng.random() < 0.8 else "".join(
            rng.choice("abcXYZ019 _-é") for _ in range(rng.randint(0, 12)))
    if k == 5:
        return gen_date(rng)
    if k in (6, 7):
        return gen_datetime(rng)
    return rng.randint(-5, 5)


def gen_key(rng):
    return rng.choice(["a", "b", "k", "key", "x y", "é", "", "type", "value", "iso8601",
                       "qualifiedName", "0", "A", "zz", "_m"])


def gen_arg(rng, depth=2):
    """A value from the supported argument domain (no function references)."""
    if depth <= 0 or rng.random() < 0.55:
        return gen_scalar(rng)
    if rng.random() < 0.5:
        return [gen_arg(rng, depth - 1) for _ in range(rng.randint(0, 4))]
    return {gen_key(rng): gen_arg(rng, depth - 1) for _ in range(rng.randint(0, 4))}


NP_DTYPES = ["bool", "int8", "int16", "int32", "int64", "float32", "float64"]


def gen_array(rng, dtype=None, n=None):
    import numpy as np

    dtype = dtype or rng.choice(NP_DTYPES)
    shaped = n is None
    n = rng.choice([0, 1, 2, 5, 17, 17, 900, 9000]) if n is None else n  # up to 72 KB: oversize for small caches
    if dtype == "bool":
        arr = np.array([rng.random() < 0.5 for _ in range(n)], dtype=dtype)
    elif dtype.startswith("int"):
        info = np.iinfo(dtype)
        vals = [rng.choice([info.min, info.max, 0, 1, -1, rng.randint(-100, 100)]) for _ in range(n)]
        arr = np.array(vals, dtype=dtype)
    else:
        vals = [rng.choice([0.0, -0.0, 1.5, float("nan"), float("inf"), rng.uniform(-10, 10)])
                for _ in range(n)]
        arr = np.array(vals, dtype=dtype)
    if not shaped:
        return arr
    # shapes and memory layouts other than "one dimension, contiguous": zero-dimensional, two- and three-dimensional
    # (also with an empty axis), Fortran order, strided views of a larger array
    how = rng.choice(["1d", "1d", "1d", "0d", "2d", "2d", "3d", "fortran", "strided", "empty_axis"])
    if how == "0d":
        return np.array(arr[0] if n else arr.dtype.type(1))
    if how in ("2d", "fortran") and n >= 2:
        k = 2 if n % 2 == 0 else (n if n < 4 else 1)
        out = arr[: (n // k) * k].reshape((n // k, k))
        return np.asfortranarray(out) if how == "fortran" else out
    if how == "3d" and n >= 4:
        return arr[: (n // 4) * 4].reshape((n // 4, 2, 2))
    if how == "strided" and n >= 2:
        return arr[::2] if rng.random() < 0.5 else arr[::-1]
    if how == "empty_axis":
        return arr[:0].reshape((0, 3)) if rng.random() < 0.5 else arr[:0].reshape((2, 0))
    return arr


def gen_pandas(rng, kind=None):
    import numpy as np
    import pandas as pd

    kind = kind or rng.choice(["index", "series", "frame"])
    n = rng.choice([0, 1, 3, 6, 6, 700])  # 700 rows: oversize for the small caches
    if kind == "index":
        c = rng.randrange(3)
        if c == 0:
            return pd.Index([rng.randint(-5, 5) for _ in range(n)], name=rng.choice([None, "i"]))
        if c == 1:
            return pd.Index([rng.choice(STRS[:6]) for _ in range(n)])
        return pd.RangeIndex(rng.randint(0, 3), rng.randint(3, 9), rng.randint(1, 2))
    if rng.random() < 0.5:
        idx = None
    else:
        idx = rng.sample(range(max(100, n)), n) if rng.random() < 0.5 else ["r%d" % i for i in range(n)]
    if kind == "series":
        c = rng.randrange(3)
        if c == 0:
            data = [rng.choice([1.5, float("nan"), -2.0, 0.0]) for _ in range(n)]
        elif c == 1:
            data = [rng.randint(-9, 9) for _ in range(n)]
        else:
            data = [rng.choice(["a", "bb", "", "é"]) for _ in range(n)]
        return pd.Series(data, index=idx, name=rng.choice([None, "s"]))
    cols = {}
    for j in range(rng.randint(1, 3)):
        c = rng.randrange(4)
        name = "c%d" % j
        if c == 0:
            cols[name] = [rng.choice([1.5, float("nan"), -2.0]) for _ in range(n)]
        elif c == 1:
            cols[name] = [rng.randint(-9, 9) for _ in range(n)]
        elif c == 2:
            cols[name] = [rng.choice(["a", "bb", ""]) for _ in range(n)]
        else:
            cols[name] = [rng.random() < 0.5 for _ in range(n)]
    return pd.DataFrame(cols, index=idx)


def gen_result(rng, depth=2):
    """A value from the supported result domain, without partitions."""
    r = rng.random()
    if depth <= 0 or r < 0.45:
        k = rng.randrange(5)
        if k == 0:
            return bytes(rng.randrange(256) for _ in range(rng.choice([0, 1, 5, 40])))
        if k == 4 and rng.random() < 0.5:
            # a pandas timestamp: a subclass of datetime (a timestamp, not a date), naive or with a zone
            import pandas as pd

            import datetime as _dt

            d = gen_datetime(rng)
            if d.tzinfo is not None and not isinstance(d.tzinfo, _dt.timezone):
                d = d.replace(tzinfo=None)  # (pandas takes fixed-offset zones of the standard library only)
            return pd.Timestamp(d.replace(year=min(max(d.year, 1700), 2200)))
        return gen_scalar(rng)
    if r < 0.58:
        return gen_array(rng)
    if r < 0.72:
        return gen_pandas(rng)
    if r < 0.86:
        return [gen_result(rng, depth - 1) for _ in range(rng.randint(0, 4))]
    return {gen_key(rng): gen_result(rng, depth - 1) for _ in range(rng.randint(0, 4))}


def type_name(v):
    return type(v).__module__ + "." + type(v).__qualname__


def eq(a, b):
    import numpy as np
    import pandas as pd

    if isinstance(a, pd.DataFrame) or isinstance(b, pd.DataFrame):
        return (isinstance(a, pd.DataFrame) and isinstance(b, pd.DataFrame)
                and list(a.dtypes.astype(str)) == list(b.dtypes.astype(str))
                and a.equals(b) and a.index.equals(b.index) and list(a.columns) == list(b.columns))
    if isinstance(a, pd.Series) or isinstance(b, pd.Series):
        return (isinstance(a, pd.Series) and isinstance(b, pd.Series)
                and str(a.dtype) == str(b.dtype) and a.equals(b) and a.index.equals(b.index)
                and a.name == b.name)
    if isinstance(a, pd.Index) or isinstance(b, pd.Index):
        return (isinstance(a, pd.Index) and isinstance(b, pd.Index) and str(a.dtype) == str(b.dtype)
                and a.equals(b) and a.name == b.name)
    if isinstance(a, np.ndarray) or isinstance(b, np.ndarray):
        if not (isinstance(a, np.ndarray) and isinstance(b, np.ndarray)):
            return False
        if a.dtype != b.dtype or a.shape != b.shape:
            return False
        if a.dtype.kind == "f":
            return bool(np.array_equal(a, b, equal_nan=True)
                        and np.array_equal(np.signbit(a), np.signbit(b)))
        return bool(np.array_equal(a, b))
    if is_partition(a) or is_partition(b):
        if not (is_partition(a) and is_partition(b)):
            return False
        ka, kb = sorted(a.list_keys()), sorted(b.list_keys())
        return ka == kb and all(eq(a.get(k), b.get(k)) for k in ka)
    if isinstance(a, BaseException) and type(a).__name__ == "MementoException":
        # a recorded failure: class name and message (the trace text is re-rendered when it is stored)
        return type(a) is type(b) and a.exception_name == b.exception_name and a.message == b.message
    if type(a) is not type(b):
        # pandas Timestamp is a datetime subclass; pickled values keep their class
        return False
    if isinstance(a, float):
        return repr(a) == repr(b)
    if isinstance(a, dt.datetime):
        return a.replace(tzinfo=None) == b.replace(tzinfo=None) and a.utcoffset() == b.utcoffset()
    if isinstance(a, (list, tuple)):
        return len(a) == len(b) and all(eq(x, y) for x, y in zip(a, b))
    if isinstance(a, dict):
        return set(a.keys()) == set(b.keys()) and all(eq(a[k], b[k]) for k in a)
    try:
        return bool(a == b)
    except Exception:
        return False


def is_partition(v):
    try:
        from twosigma.memento.partition import Partition
    except Exception:
        return False
    return isinstance(v, Partition)


def describe(v, n=200):
    try:
        if is_partition(v):
            s = "Partition{" + ", ".join(
                "%s: %s" % (k, describe(v.get(k), 40)) for k in sorted(v.list_keys())) + "}"
        else:
            s = repr(v)
    except Exception as e:
        s = "<unrepresentable %s: %r>" % (type(v).__name__, e)
    s = s.replace("\n", "\\n")
    if len(s) > n:
        s = s[: n - 3] + "..."
    return "%s:%s" % (type(v).__name__, s)


def contains_nan_or_inf(v):
    if isinstance(v, float):
        return math.isnan(v) or math.isinf(v)
    if isinstance(v, (list, tuple)):
        return any(contains_nan_or_inf(x) for x in v)
    if isinstance(v, dict):
        return any(contains_nan_or_inf(x) for x in v.values())
    return False


def eq_safe(a, b):
    """eq() that treats a value whose accessors raise as unequal; returns (equal, error-or-None)."""
    try:
        return eq(a, b), None
    except Exception as e:
        return False, "%s: %s" % (type(e).__name__, str(e)[:200])
