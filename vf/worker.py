"""Worker: imports the tree under test once, then forks one pristine child per case.

stdin:  {"i": n, "case": {...}} per line      stdout: {"i": n, "res": {...}} | {"i": n, "err": ..., "kind": ...}
"""
import importlib
import json
import os
import select
import signal
import sys
import time
import traceback


def _quiet():
    import logging

    logging.disable(logging.CRITICAL)
    try:
        from twosigma.memento.logging import log

        log.setLevel(logging.CRITICAL + 1)
    except Exception:
        pass


def run_forked(fn, arg, timeout):
    """Run fn(arg) in a forked child; return ("res", obj) | ("err", text, kind)."""
    r, w = os.pipe()
    sys.stdout.flush()
    # every case gets its own temp directory, removed by the parent whatever the child did
    # (the code under test leaves memento_partition_* staging directories behind)
    import shutil
    import tempfile

    case_tmp = tempfile.mkdtemp(prefix="vf-case-")
    pid = os.fork()
    if pid == 0:
        code = 0
        try:
            os.close(r)
            os.environ["TMPDIR"] = case_tmp
            tempfile.tempdir = case_tmp
            try:
                out = {"res": fn(arg)}
            except BaseException:
                out = {"err": traceback.format_exc(), "kind": "exception"}
            data = json.dumps(out, default=repr).encode()
            with os.fdopen(w, "wb") as f:
                f.write(data)
        except BaseException:
            code = 3
        finally:
            os._exit(code)
    os.close(w)
    chunks = []
    deadline = time.time() + timeout
    timed_out = False
    while True:
        left = deadline - time.time()
        if left <= 0:
            timed_out = True
            break
        ready, _, _ = select.select([r], [], [], min(left, 1.0))
        if ready:
            b = os.read(r, 1 << 16)
            if not b:
                break
            chunks.append(b)
    os.close(r)
    if timed_out:
        try:
            os.kill(pid, signal.SIGKILL)
        except ProcessLookupError:
            pass
    _, status = os.waitpid(pid, 0)
    shutil.rmtree(case_tmp, ignore_errors=True)
    if timed_out:
        return {"err": "case exceeded the %ss watchdog" % timeout, "kind": "timeout"}
    data = b"".join(chunks)
    if not data:
        return {"err": "child ended without a result (status %r)" % (status,), "kind": "crash"}
    return json.loads(data)


def main():
    check_id, timeout = sys.argv[1], float(sys.argv[2])
    mod = importlib.import_module("checks." + check_id.lower())
    for name in getattr(mod, "WORKER_IMPORTS", ["twosigma.memento"]):
        importlib.import_module(name)
    _quiet()
    fork = getattr(mod, "FORK", True)
    out = os.fdopen(os.dup(1), "w")
    os.dup2(2, 1)  # anything the code under test prints goes to stderr, not to the protocol
    for line in sys.stdin:
        msg = json.loads(line)
        if fork:
            rep = run_forked(mod.run_case, msg["case"], timeout)
        else:
            try:
                rep = {"res": mod.run_case(msg["case"])}
            except BaseException:
                rep = {"err": traceback.format_exc(), "kind": "exception"}
        rep["i"] = msg["i"]
        out.write(json.dumps(rep, default=repr) + "\n")
        out.flush()


if __name__ == "__main__":
    main()
