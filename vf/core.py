"""Framework core: seeds, tiers, verdicts, worker pool, evidence, replay files, known findings.

A check module (checks/cNN.py) provides
  ID, LEVEL, RULE, ASSUMPTIONS
  cases(tier, seed)      -> iterable of JSON-serialisable case dicts
  run_case(case)         -> {"viol": [{"sig":..., "msg":..., ...}], "obs": {counter: int},
                             "sets": {name: [str, ...]}, "sample": any, "nontrivial": [str,...]}
  conclude(agg)          -> (inconclusive_reason | None, extra_coverage_dict)
run_case is executed in a forked child of a worker process that has imported
twosigma.memento from the tree under test and nothing else, so every case starts from
pristine process-global state.
"""
import hashlib
import json
import os
import queue
import random
import subprocess
import sys
import threading
import time
import traceback

HERE = os.path.dirname(os.path.dirname(os.path.abspath(__file__)))
REPO = os.environ.get("VERIF_REPO", "/repo")
PY = os.environ.get("VF_PYTHON", "/venv/bin/python")


def rng_for(*parts) -> random.Random:
    h = hashlib.sha256("/".join(str(p) for p in parts).encode()).digest()
    return random.Random(int.from_bytes(h[:8], "big"))


def short(obj, n=400):
    s = obj if isinstance(obj, str) else json.dumps(obj, default=repr, sort_keys=True)
    return s if len(s) <= n else s[: n - 3] + "..."


class Agg:
    """Aggregated observations of a run (what the monitors actually saw)."""

    def __init__(self):
        self.n = 0
        self.obs = {}
        self.sets = {}
        self.viol = []  # (case_index, case, violation dict)
        self.errors = []  # harness errors / crashes / timeouts
        self.samples = []
        self.nontrivial = set()

    def add(self, idx, case, res):
        self.n += 1
        for k, v in (res.get("obs") or {}).items():
            self.obs[k] = self.obs.get(k, 0) + v
        for k, v in (res.get("sets") or {}).items():
            self.sets.setdefault(k, set()).update(v)
        for v in res.get("viol") or []:
            self.viol.append((idx, case, v))
        self.nontrivial.update(res.get("nontrivial") or [])
        if len(self.samples) < 3 and res.get("sample") is not None:
            self.samples.append(res["sample"])


class Pool:
    """N long-lived worker subprocesses (python -m vf.worker <check>), one feeder thread each."""

    def __init__(self, check_id, n_workers, timeout):
        self.check_id = check_id
        self.n = n_workers
        self.timeout = timeout

    def _spawn(self):
        return subprocess.Popen(
            [PY, "-m", "vf.worker", self.check_id, str(self.timeout)],
            stdin=subprocess.PIPE,
            stdout=subprocess.PIPE,
            cwd=HERE,
            text=True,
            bufsize=1,
        )

    def run(self, cases, on_result):
        q = queue.Queue(maxsize=self.n * 4)
        lock = threading.Lock()
        stop = threading.Event()

        def feeder():
            proc = self._spawn()
            try:
                while True:
                    item = q.get()
                    if item is None:
                        return
                    idx, case = item
                    try:
                        proc.stdin.write(json.dumps({"i": idx, "case": case}) + "\n")
                        proc.stdin.flush()
                        line = proc.stdout.readline()
                        if not line:
                            raise BrokenPipeError("worker died")
                        msg = json.loads(line)
                    except Exception as e:  # worker died: restart, report the case
                        try:
                            proc.kill()
                        except Exception:
                            pass
                        proc = self._spawn()
                        msg = {"i": idx, "err": "worker died: %r" % (e,), "kind": "crash"}
                    with lock:
                        on_result(idx, case, msg)
            finally:
                try:
                    proc.stdin.close()
                    proc.wait(timeout=10)
                except Exception:
                    proc.kill()

        threads = [threading.Thread(target=feeder, daemon=True) for _ in range(self.n)]
        for t in threads:
            t.start()
        try:
            for idx, case in enumerate(cases):
                if stop.is_set():
                    break
                q.put((idx, case))
        finally:
            for _ in threads:
                q.put(None)
            for t in threads:
                t.join()


def load_known():
    path = os.path.join(HERE, "known_findings.json")
    if not os.path.exists(path):
        return []
    with open(path) as f:
        return json.load(f).get("findings", [])


def run_check(mod, tier, seed, workers=None, replay=None, max_cases=None):
    t0 = time.time()
    pid = mod.ID
    agg = Agg()
    timeout = getattr(mod, "TIMEOUT", 120)
    if replay:
        with open(replay) as f:
            rp = json.load(f)
        case_list = [rp["case"]]
        tier, seed = rp.get("tier", tier), rp.get("seed", seed)
    else:
        case_list = mod.cases(tier, seed)
        if max_cases:
            import itertools

            case_list = itertools.islice(case_list, max_cases)
    n_workers = (workers or int(os.environ.get("VF_WORKERS", "0"))
                 or getattr(mod, "WORKERS", {}).get(tier) or min(16, os.cpu_count() or 4))

    def on_result(idx, case, msg):
        if "res" in msg:
            agg.add(idx, case, msg["res"])
        else:
            agg.n += 1
            agg.errors.append((idx, case, msg.get("kind", "error"), msg.get("err", "")))

    Pool(pid, n_workers, timeout).run(case_list, on_result)

    # classify violations against the committed known-findings file (never written here)
    known = [k for k in load_known() if k.get("property") == pid and k.get("status") == "known"]
    known_hits, fresh = {}, []
    for idx, case, v in agg.viol:
        hit = next((k for k in known if k.get("mechanism") == v.get("sig")), None)
        if hit is not None:
            known_hits.setdefault(hit["mechanism"], [hit, 0])[1] += 1
        else:
            fresh.append((idx, case, v))

    reason, extra = mod.conclude(agg)
    if agg.errors:
        kinds = sorted({e[2] for e in agg.errors})
        reason = "%d case(s) did not complete (%s): %s" % (
            len(agg.errors), ",".join(kinds), agg.errors[0][3][-900:])

    wall = time.time() - t0
    coverage = {
        "evaluations": agg.n,
        "distinct_nontrivial": len(agg.nontrivial),
        "rule": mod.RULE,
        "samples": agg.samples or [None],
        "observed": {k: agg.obs[k] for k in sorted(agg.obs)},
        "distinct": {k: len(v) for k, v in sorted(agg.sets.items())},
        "known_finding_hits": {k: v[1] for k, v in known_hits.items()},
        "incomplete_cases": len(agg.errors),
    }
    coverage.update(extra or {})
    evidence = {
        "property_id": pid,
        "tier": tier,
        "seed": int(seed),
        "level": mod.LEVEL,
        "coverage": coverage,
        "assumptions": list(getattr(mod, "ASSUMPTIONS", [])),
        "wall_s": round(wall, 2),
        "violations": len(fresh),
        "verdict": "violated" if fresh else ("inconclusive" if reason else "held"),
    }
    # evidence describes the tree under test at /repo: runs against scratch copies (self-test mutants, seeded
    # changes: VERIF_REPO points elsewhere) and replays never write it
    if not replay and not os.environ.get("VF_NO_EVIDENCE") and os.path.realpath(REPO) == os.path.realpath("/repo"):
        os.makedirs(os.path.join(HERE, "evidence"), exist_ok=True)
        with open(os.path.join(HERE, "evidence", pid + ".json"), "w") as f:
            json.dump(evidence, f, indent=1, default=repr, sort_keys=True)
            f.write("\n")

    print("%s tier=%s seed=%s cases=%d nontrivial=%d wall=%.1fs" % (
        pid, tier, seed, agg.n, len(agg.nontrivial), wall))
    print("  observed: " + short(coverage["observed"], 2000))
    if coverage["distinct"]:
        print("  distinct: " + short(coverage["distinct"], 1000))
    for mech, (entry, cnt) in sorted(known_hits.items()):
        print("KNOWN-FINDING: property=%s %s (%d occurrence(s) this run)" % (
            pid, entry.get("what", mech), cnt))
    if fresh:
        seen = set()
        rdir = os.path.join(HERE, "replays", pid)
        os.makedirs(rdir, exist_ok=True)
        for idx, case, v in fresh:
            if v.get("sig") in seen:
                continue
            seen.add(v.get("sig"))
            if len(seen) > 8:
                break
            path = replay or os.path.join(rdir, "%s-seed%s-case%d.json" % (tier, seed, idx))
            if not replay:
                with open(path, "w") as f:
                    json.dump({"property": pid, "tier": tier, "seed": seed, "index": idx,
                               "case": case, "violation": v}, f, indent=1, default=repr)
            print("  witness[%s]: %s" % (v.get("sig"), short(v.get("msg", ""), 1500)))
            print("VIOLATION property=%s replay=%s" % (pid, path))
        print("  total violations: %d (distinct mechanisms: %d)" % (
            len(fresh), len({v.get("sig") for _, _, v in fresh})))
        return 1
    if reason:
        print("INCONCLUSIVE property=%s reason=%s" % (pid, reason))
        return 2
    print("HELD property=%s on everything explored" % pid)
    return 0


def need(agg, counter, minimum):
    """Vacuity guard: the deciding monitor must have been reached often enough."""
    got = agg.obs.get(counter, 0)
    if got < minimum:
        return "monitor starved: %s=%d < %d" % (counter, got, minimum)
    return None


def first(*reasons):
    for r in reasons:
        if r:
            return r
    return None
