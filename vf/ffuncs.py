"""Memento functions for function-level scenarios whose version must never change.
Bodies take what they return / raise from a harness-side table (TABLE) so the code is constant."""
import twosigma.memento as m
from vf.recorder import REC

TABLE = {}


class _Table:
    """Opaque holder (not encodable by memento's codec, so never hashed as a global variable)."""

    def get(self, k):
        return TABLE[k]


T = _Table()


def _produce(name, case_id):
    REC.hit(name, case_id)
    v = T.get(case_id)
    if isinstance(v, BaseException):
        raise v
    if isinstance(v, tuple) and v and v[0] == "__raise__":
        raise v[1](*v[2])
    if callable(v):
        return v()
    return v


@m.memento_function(version="p1")
def produce(case_id):
    return _produce("produce", case_id)


@m.memento_function(version="p1")
def produce2(case_id):
    return _produce("produce2", case_id)


@m.memento_function(version="d1")
def decorate(case_id):
    """Finishes, in place, the list or dictionary that a nested call returned, and returns that very object (C02)."""
    REC.hit("decorate", case_id)
    r = produce(case_id)
    if isinstance(r, list):
        r.append("finished")
    elif isinstance(r, dict):
        r["finished"] = True
    return r


@m.memento_function(version="x1")
def calls_c(case_id):
    """A function of the default cluster whose body calls a function of cluster c (C19)."""
    REC.hit("calls_c", case_id)
    try:
        return ["ok", cproduce(case_id)]
    except RuntimeError as e:
        return ["refused", str(e)[:40]]


@m.memento_function
def autov(case_id):
    """Automatic version. Its helper is defined further down: the version computed when this function is registered
    is not its final one (C09)."""
    return _autov_tail(case_id)


@m.memento_function
def autoboth(case_id):
    """Automatic version, two memento functions beneath it (C09)."""
    REC.hit("autoboth", case_id)
    return [produce(case_id), produce2(case_id)]


@m.memento_function(cluster="c", version="p1")
def cproduce(case_id):
    return _produce("cproduce", case_id)


# ---- exception classes for C02 -------------------------------------------------------------
class CustomError(Exception):
    """Importable, one-argument: can be rebuilt from its message."""


class CustomOptional(Exception):
    def __init__(self, message="dflt", code=7):
        super().__init__(message)
        self.code = code


class TwoArgs(Exception):
    """Needs two arguments: cannot be rebuilt from a message alone."""

    def __init__(self, a, b):
        super().__init__("%s/%s" % (a, b))


class Picky(Exception):
    """One argument, but the constructor rejects anything that is not a number."""

    def __init__(self, n):
        super().__init__(str(int(n)))


class Outer:
    class Nested(Exception):
        """Importable through a dotted qualified name."""


def local_class():
    class LocalError(Exception):
        """Defined inside a function: cannot be found again by name."""

    return LocalError


from twosigma.memento.exception import NonMemoizedException  # noqa: E402


class Transient(NonMemoizedException):
    """Marked as not-to-be-memoized."""


# ---- partition chains for C17 ---------------------------------------------------------------
def _build_level(spec):
    from twosigma.memento.partition import InMemoryPartition
    from twosigma.memento.storage_filesystem import OnDiskPartition

    d = spec["make"]()
    if spec["kind"] == "mem":
        # the mapping handed to the partition may be any dictionary kind a body would naturally build
        how = spec.get("container", "dict")
        if how == "defaultdict":
            import collections

            dd = collections.defaultdict(list)
            dd.update(d)
            d = dd
        elif how == "ordered":
            import collections

            d = collections.OrderedDict(d)
        return InMemoryPartition(d)
    p = OnDiskPartition()
    if spec.get("reassign") and d:
        # every key first holds one and the same value (equal values share one staged object), then gets its own
        first = next(iter(d.values()))
        for k in d:
            p[k] = first
    for k, v in d.items():
        p[k] = v
    return p


@m.memento_function(version="c1")
def chain(chain_id, level):
    REC.hit("chain", chain_id, level)
    spec = T.get(chain_id)
    part = _build_level(spec[level])
    if level > 0:
        part._merge_parent = chain(chain_id, level - 1)
    return part


@m.memento_function(version="c1")
def sibling(chain_id, level, tag):
    """Another child of the partition that chain(chain_id, level - 1) returns."""
    REC.hit("sibling", chain_id, level, tag)
    part = _build_level(T.get(chain_id + "/sib/" + tag))
    part._merge_parent = chain(chain_id, level - 1)
    return part


@m.memento_function(cluster="c", version="c1")
def csibling(chain_id, level, tag):
    """A child, stored in cluster c, of the partition that chain(chain_id, level - 1) (default cluster) returns."""
    REC.hit("csibling", chain_id, level, tag)
    part = _build_level(T.get(chain_id + "/sib/" + tag))
    part._merge_parent = chain(chain_id, level - 1)
    return part


@m.memento_function(version="c1")
def oparent(chain_id):
    """A partition published under a key override (its entries are stored under names, not under content hashes)."""
    from twosigma.memento.result import KeyOverrideResult

    REC.hit("oparent", chain_id)
    return KeyOverrideResult(_build_level(T.get(chain_id + "/oparent")), "ovr/part-" + chain_id)


@m.memento_function(cluster="c", version="c1")
def cother(chain_id):
    """Another partition, of cluster c, published under the very same key override."""
    from twosigma.memento.result import KeyOverrideResult

    REC.hit("cother", chain_id)
    return KeyOverrideResult(_build_level(T.get(chain_id + "/cother")), "ovr/part-" + chain_id)


@m.memento_function(cluster="c", version="c1")
def ochild(chain_id):
    """A child, stored in cluster c, of the partition that oparent (default cluster) publishes under a key override."""
    REC.hit("ochild", chain_id)
    part = _build_level(T.get(chain_id + "/ochild"))
    part._merge_parent = oparent(chain_id)
    return part


@m.memento_function(version="c1")
def unstorable(chain_id):
    """A partition one of whose values is a partition with a merge parent that was never stored: storing it fails
    part-way (the caller still gets the partition)."""
    REC.hit("unstorable", chain_id)
    from twosigma.memento.partition import InMemoryPartition

    inner = InMemoryPartition({"i": 1})
    inner._merge_parent = InMemoryPartition({"never": "stored"})
    return InMemoryPartition({"alpha": 1, "beta": inner, "gamma": 3, "shared": "parent's"})


@m.memento_function(version="c1")
def child_of_unstorable(chain_id):
    REC.hit("child_of_unstorable", chain_id)
    from twosigma.memento.partition import InMemoryPartition

    part = InMemoryPartition({"own": 7, "shared": "child's"})
    part._merge_parent = unstorable(chain_id)
    return part


@m.memento_function(version="c1")
def rebased(chain_id, level, under):
    """Hands on the partition chain(chain_id, level) returns after declaring chain(chain_id, under) as its merge parent."""
    REC.hit("rebased", chain_id, level, under)
    part = chain(chain_id, level)
    part._merge_parent = chain(chain_id, under)
    return part


@m.memento_function(version="c1")
def stage(chain_id, level, kind):
    """Returns a partition that holds the partition chain(chain_id, level) returns as one of its values."""
    REC.hit("stage", chain_id, level, kind)
    from twosigma.memento.partition import InMemoryPartition
    from twosigma.memento.storage_filesystem import OnDiskPartition

    inner = chain(chain_id, level)
    if kind == "mem":
        return InMemoryPartition({"held": inner, "n": level})
    out = OnDiskPartition()
    out["held"] = inner
    out["n"] = level
    return out


@m.memento_function(version="c1")
def passthru(chain_id, level):
    """Hands on, as its own result, the partition that chain(chain_id, level) returns."""
    REC.hit("passthru", chain_id, level)
    return chain(chain_id, level)


# ---- functions that are passed around as argument values (C04, C11) -----------------------
@m.memento_function(version="r1")
def callee2(a, b=None):
    return REC.tick("callee2", a, b)


@m.memento_function(version="r2")
def callee3(p, q, r=0):
    return REC.tick("callee3", p, q, r)


@m.memento_function(cluster="c", version="r3")
def ccallee(x, y=1):
    return REC.tick("ccallee", x, y)


# ---- two-parameter function for batches (C15) ---------------------------------------------
@m.memento_function(version="b1")
def pair(prefix, k):
    return _produce("pair", "%s|%s" % (prefix, k))


@m.memento_function(version="dr1")
def drain(prefix, k, xs, opts=None):
    """Uses up its list / dictionary arguments while it works (they are the call's own copies)."""
    REC.hit("drain", prefix, k)
    first = xs.pop(0)
    scale = (opts or {}).pop("scale", 1)
    return [first * scale + k, len(xs), sorted(opts or {})]


@m.memento_function(version="nb1")
def window(prefix, k):
    """An element whose body evaluates a batch of its own (three calls of pair: a rolling window)."""
    REC.hit("window", prefix, k)
    res = pair.call_batch([{"prefix": prefix, "k": k + i} for i in range(3)], raise_first_exception=False)
    return [r if not isinstance(r, Exception) else "exc:" + type(r).__name__ for r in res]


@m.memento_function(version="b3")
def pair3(prefix, k, tag="t0", scale=1):
    """Like pair, with two optional parameters (batch elements may or may not name them)."""
    return [_produce("pair3", "%s|%s" % (prefix, k)), tag, scale]


@m.memento_function(version="b4")
def pairk(prefix, k, **opts):
    """Like pair, with free-form settings (batch elements may pass any)."""
    return [_produce("pairk", "%s|%s" % (prefix, k)), sorted(opts.items())]


# ---- nested calls for concurrency scenarios (C09) (outer is defined below nest) -------------------------------------------
@m.memento_function(version="n1")
def nest(case_id):
    REC.hit("nest", case_id)
    return [produce(case_id), 1]


@m.memento_function(version="tw1")
def twice(case_id):
    """Makes the same nested call twice, and once more in a batch with a duplicate (C19: null storage)."""
    REC.hit("twice", case_id)
    return [produce(case_id), produce(case_id), produce.call_batch([{"case_id": case_id}, {"case_id": case_id}])]


@m.memento_function(version="o1")
def outer(case_id):
    """Reaches `produce` through a one-element batch of `nest` only."""
    REC.hit("outer", case_id)
    a = produce2(case_id)
    b = nest.call_batch([{"case_id": case_id}])
    return [a, b[0]]


def _autov_tail(case_id):
    return _produce("autov", case_id)
