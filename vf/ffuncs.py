"""Memento functions for function-level scenarios whose version must never change.
Bodies take what they return / raise from a harness-side table (TABLE) so the code is constant."""
import twosigma.memento as m
from vf.recorder import REC

TABLE = {}


class _Table:
    """Opaque holder (not encodable by memento's codec, so never hashed as a global variable)."""

    def get(self, k):
        return TABLE[k]


T = _Table()


def _produce(name, case_id):
    REC.hit(name, case_id)
    v = T.get(case_id)
    if isinstance(v, BaseException):
        raise v
    if callable(v):
        return v()
    return v


@m.memento_function(version="p1")
def produce(case_id):
    return _produce("produce", case_id)


@m.memento_function(version="p1")
def produce2(case_id):
    return _produce("produce2", case_id)


@m.memento_function(cluster="c", version="p1")
def cproduce(case_id):
    return _produce("cproduce", case_id)
