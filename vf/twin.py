"""Stand-in for `twosigma.memento` in twin programs: memento_function is the identity, so running
the twin is the un-memoized execution of the same program text."""


def memento_function(*plain_fn, **kw):
    if len(plain_fn) == 1 and not kw and callable(plain_fn[0]):
        return plain_fn[0]
    return lambda fn: fn
