"""Stand-in for `twosigma.memento` in twin programs: memento_function is the identity, so running
the twin is the un-memoized execution of the same program text."""


def memento_function(*plain_fn, **kw):
    if len(plain_fn) == 1 and not kw and callable(plain_fn[0]):
        return plain_fn[0]
    return lambda fn: fn


class _Box:
    def __init__(self, v):
        self.v = v

    def plus(self, n):
        return _Box(self.v + n)


def box(v):
    """A helper of another package (never part of a version): wraps a value so that generated code can use the
    result of a call through an attribute chain, `box(f(x)).v`, `box(f(x)).plus(g(x)).v`."""
    return _Box(v)
