"""Stand-in for `twosigma.memento` in twin programs: memento_function is the identity, so running
the twin is the un-memoized execution of the same program text."""


class _TwinFn:
    """What a memento function is in the twin program: the plain function, with the call modifiers that generated
    code uses (they change how a call is run or keyed, never what it returns)."""

    def __init__(self, fn, pargs=(), pkwargs=None):
        self.fn, self.pargs, self.pkwargs = fn, tuple(pargs), dict(pkwargs or {})
        self.__name__ = getattr(fn, "__name__", "fn")

    def __call__(self, *a, **k):
        return self.fn(*(self.pargs + a), **dict(self.pkwargs, **k))

    def force_local(self):
        return self

    def partial(self, *a, **k):
        return _TwinFn(self.fn, self.pargs + a, dict(self.pkwargs, **k))

    def call(self, *a, **k):
        return self(*a, **k)

    def call_batch(self, kwargs_list, raise_first_exception=True):
        return [self(**kw) for kw in kwargs_list]


def memento_function(*plain_fn, **kw):
    if len(plain_fn) == 1 and not kw and callable(plain_fn[0]):
        return _TwinFn(plain_fn[0])
    return lambda fn: _TwinFn(fn)


class _Box:
    def __init__(self, v):
        self.v = v

    def plus(self, n):
        return _Box(self.v + n)


def box(v):
    """A helper of another package (never part of a version): wraps a value so that generated code can use the
    result of a call through an attribute chain, `box(f(x)).v`, `box(f(x)).plus(g(x)).v`."""
    return _Box(v)


def boom(x):
    """Another helper of another package: always fails (generated code calls it inside or after a try block)."""
    raise ValueError("boom %r" % (x,))
