"""Filesystem observers: tree snapshot + diff (ground truth) and an audit-hook event log."""
import hashlib
import os
import sys


def snapshot(root):
    """relative path -> (type, size, mtime_ns, sha256) for everything under root."""
    snap = {}
    if not os.path.exists(root):
        return snap
    for dirpath, dirnames, filenames in os.walk(root):
        rel = os.path.relpath(dirpath, root)
        st = os.stat(dirpath)
        snap[rel + "/"] = ("dir", 0, st.st_mtime_ns, "")
        for fn in filenames:
            p = os.path.join(dirpath, fn)
            st = os.lstat(p)
            try:
                with open(p, "rb") as f:
                    h = hashlib.sha256(f.read()).hexdigest()
            except OSError as e:
                h = "unreadable:%s" % e
            snap[os.path.normpath(os.path.join(rel, fn))] = ("file", st.st_size, st.st_mtime_ns, h)
    return snap


def diff(a, b):
    out = []
    for k in sorted(set(a) | set(b)):
        if k not in a:
            out.append("created " + k)
        elif k not in b:
            out.append("removed " + k)
        elif a[k] != b[k]:
            what = [n for n, x, y in zip(("type", "size", "mtime", "content"), a[k], b[k]) if x != y]
            out.append("changed %s (%s)" % (k, ",".join(what)))
    return out


_WRITE_FLAGS = os.O_WRONLY | os.O_RDWR | os.O_CREAT | os.O_TRUNC | os.O_APPEND
MUTATING = {"os.mkdir", "os.rename", "os.remove", "os.rmdir", "shutil.rmtree", "os.link", "os.symlink",
            "os.truncate", "os.chmod", "os.chown", "os.utime", "shutil.copyfile", "shutil.move",
            "shutil.copytree", "os.replace", "os.unlink"}


class AuditLog:
    """Records filesystem audit events whose path lies under one of the roots. Audit hooks cannot
    be removed, so the instance is switched on and off; one per process is enough."""

    def __init__(self, roots):
        self.roots = [os.path.abspath(r) for r in roots]
        self.active = False
        self.reads = []
        self.mutations = []
        sys.addaudithook(self._hook)

    def _under(self, p):
        if isinstance(p, os.PathLike):
            p = os.fspath(p)
        if isinstance(p, bytes):
            p = os.fsdecode(p)
        if not isinstance(p, str):
            return None
        ap = os.path.abspath(p)
        for r in self.roots:
            if ap == r or ap.startswith(r + os.sep):
                return ap
        return None

    def _hook(self, event, args):
        if not self.active:
            return
        if event == "open":
            p = self._under(args[0])
            if p is None:
                return
            mode, flags = args[1], args[2] or 0
            writing = (isinstance(mode, str) and any(c in mode for c in "wax+")) or (flags & _WRITE_FLAGS)
            (self.mutations if writing else self.reads).append(("open", p, mode))
        elif event in MUTATING:
            paths = [self._under(a) for a in args[:2] if isinstance(a, (str, bytes, os.PathLike))]
            paths = [p for p in paths if p]
            if not paths:
                return
            if event == "os.mkdir" and os.path.isdir(paths[0]):
                return  # makedirs(exist_ok=True) on an existing directory changes nothing
            self.mutations.append((event, paths[0], None))

    def start(self):
        del self.reads[:]
        del self.mutations[:]
        self.active = True

    def stop(self):
        self.active = False
