"""Pristine-process services for checks: forked children and real interpreters."""
import json
import os
import subprocess
import sys

from . import core
from .worker import run_forked


def in_child(fn, arg=None, timeout=120):
    """Run fn(arg) in a forked child of the current (memento-importing) process and return its
    JSON-able result. Raises ChildFailed when the child crashed, timed out or raised."""
    rep = run_forked(fn, arg, timeout)
    if "res" in rep:
        return rep["res"]
    raise ChildFailed(rep.get("kind", "error"), rep.get("err", ""))


class ChildFailed(Exception):
    def __init__(self, kind, err):
        super().__init__("%s: %s" % (kind, err[-1500:]))
        self.kind, self.err = kind, err


def run_python(script_path, args=(), env_extra=None, timeout=120, hashseed=None, pythonpath=None):
    """Run a real interpreter on the tree under test; returns (returncode, stdout, stderr)."""
    env = dict(os.environ)
    env["PYTHONPATH"] = os.pathsep.join(([pythonpath] if pythonpath else []) + [core.REPO, core.HERE])
    env["PYTHONDONTWRITEBYTECODE"] = "1"
    if hashseed is not None:
        env["PYTHONHASHSEED"] = str(hashseed)
    env.update(env_extra or {})
    p = subprocess.run([core.PY, script_path] + [str(a) for a in args], env=env, capture_output=True, text=True,
                       timeout=timeout)
    return p.returncode, p.stdout, p.stderr
