"""Memento functions used only to mint function references for storage-level histories.
Names are chosen so that stored names are prefixes of each other: fn#1, fn#10, fn1#0."""
import twosigma.memento as m


@m.memento_function(cluster="c", version="1")
def fn(x):
    return x


@m.memento_function(cluster="c", version="0")
def fn1(x):
    return x


@m.memento_function(cluster="c", version="2")
def g(x):
    return x


@m.memento_function(version="1")
def dfn(x):
    return x


@m.memento_function(version="0")
def dfn1(x):
    return x


@m.memento_function(version="2")
def dg(x):
    return x
