"""Real-interpreter child for C03: imports a generated package and reports versions / calls roots."""
import importlib
import json
import os
import sys


def main():
    src, pkg, store, mode, order = sys.argv[1:6]
    os.environ["HOME"] = store
    sys.path.insert(0, src)
    import logging

    logging.disable(logging.CRITICAL)
    from vf import env

    env.set_env(os.path.join(store, "env"), default_storage=env.fs_backend(os.path.join(store, "data")))
    first = json.loads(order)
    plugin = sys.argv[6] if len(sys.argv) > 6 else "last"
    has_plugin = os.path.exists(os.path.join(src, pkg, "p.py"))
    if has_plugin and plugin == "first":  # the plug-in module (it imports module a itself) before the other modules
        importlib.import_module(pkg + ".p")
    if first and first[0][0] == "b":  # import order of the two modules follows the query order
        importlib.import_module(pkg + ".b")
    importlib.import_module(pkg + ".a")
    importlib.import_module(pkg + ".b")
    if has_plugin:
        importlib.import_module(pkg + ".p")
    if len(sys.argv) > 7 and sys.argv[7] == "late":
        # what the registration of one more memento function, in a module imported after these, does to the process:
        # everything is looked at again before the first query
        from twosigma.memento.memento import MementoFunction

        MementoFunction.increment_global_fn_generation()
    out = {}
    for mod, name in first:
        fn = getattr(sys.modules[{"a": pkg + ".a", "b": pkg + ".b", "i": pkg, "e": pkg + "_ext.lib"}[mod]], name)
        try:
            if mode == "versions":
                out[name] = fn.version()
            else:
                out[name] = ["ret", fn(1)]
        except Exception as e:
            out[name] = ["raise", type(e).__name__, str(e)[:200]]
    print("VFRESULT " + json.dumps(out))


if __name__ == "__main__":
    main()
