"""./check <ID> --tier quick|thorough [--seed N] [--replay PATH] [--workers N] [--max-cases N]"""
import argparse
import importlib
import os
import sys

from . import core


def main():
    ap = argparse.ArgumentParser()
    ap.add_argument("check")
    ap.add_argument("--tier", default=os.environ.get("VERIF_TIER") or "quick",
                    choices=["quick", "thorough"])
    ap.add_argument("--seed", type=int, default=int(os.environ.get("VERIF_SEED") or 0))
    ap.add_argument("--replay")
    ap.add_argument("--workers", type=int)
    ap.add_argument("--max-cases", type=int)
    a = ap.parse_args()
    mod = importlib.import_module("checks." + a.check.lower())
    sys.exit(core.run_check(mod, a.tier, a.seed, a.workers, a.replay, a.max_cases))


if __name__ == "__main__":
    main()
