"""Program model, renderer, twin renderer and edit operators (C01, C03, C13, C14).

A program is JSON-able data: a package with modules `b` (first `split` nodes) and `a` (the rest;
`b` does `import <pkg>.a as a` and `from <pkg>.a import ...`).  Nodes call nodes with a larger index
only, so every program terminates.  The twin is the same text with `memento_function` bound to an
identity decorator: executing it is the un-memoized execution of the current program."""
import copy
import json

WRAP_PARAMS = ["args", "a", "G0", "x", "fn_args", "lib", "pk"]
# module locations of a program, in index order (nodes call nodes of their own or a later location only):
#   b = <pkg>.b   a = <pkg>.a   i = <pkg>/__init__.py   e = <pkg>_ext.lib (another package: its plain helpers are
#   outside the package scope of the main package's functions and are never edited)
MODS = ["b", "a", "i", "e"]


def modname(prog, mod, twin=False):
    pkg = ("tw_" if twin else "") + prog["pkg"]
    return {"a": pkg + ".a", "b": pkg + ".b", "i": pkg, "e": pkg + "_ext.lib"}[mod]


def has_mod(prog, mod):
    return any(nd["mod"] == mod for nd in prog["nodes"])
BUILTIN_NAMES = ["abs", "round", "hash", "repr"]  # builtins the generated code itself never uses


# ---------------------------------------------------------------- typed literals (defaults, extra constants)
# A default / extra constant is an int or {"t": type, "v": json value}.  Every type has a literal, an
# int-valued use and a behaviour-changing bump.
DTYPES = ["int", "int", "str", "bytes", "tuple", "fset", "float", "none", "complex", "neg", "ntuple", "bool"]


def gen_typed(rng, t=None):
    t = t or rng.choice(DTYPES)
    if t == "int":
        return rng.randint(1, 5)
    v = {"str": lambda: "s" * rng.randint(1, 4), "bytes": lambda: "b" * rng.randint(1, 4),
         "tuple": lambda: [rng.randint(1, 5) for _ in range(rng.randint(1, 3))],
         "fset": lambda: sorted(rng.sample(range(1, 9), rng.randint(2, 3))),
         "float": lambda: rng.randint(1, 5) + 0.25, "none": lambda: None, "complex": lambda: [rng.randint(1, 4), rng.randint(1, 4)],
         "neg": lambda: -rng.randint(1, 5), "ntuple": lambda: [[rng.randint(1, 4), rng.randint(1, 4)], rng.randint(1, 4)],
         "bool": lambda: rng.random() < 0.5}[t]()
    return {"t": t, "v": v}


def dlit(d):
    if not isinstance(d, dict):
        return repr(d)
    t, v = d["t"], d["v"]
    if t == "bytes":
        return repr(v.encode())
    if t == "tuple":
        return repr(tuple(v))
    if t == "fset":
        return "frozenset({%s})" % ", ".join(repr(x) for x in v)
    if t == "complex":
        return "(%d+%dj)" % (v[0], v[1])
    if t == "ntuple":
        return repr((tuple(v[0]), v[1]))
    return repr(v)


def duse(name, d):
    if not isinstance(d, dict):
        return name
    return {"str": "len(%s)", "bytes": "len(%s)", "tuple": "(sum(%s) + %s[0])", "fset": "sum(%s)", "float": "int(%s * 4)",
            "none": "(0 if %s is None else (3 if %s is False else 5))", "complex": "int(%s.real * 3 + %s.imag)",
            "neg": "%s", "ntuple": "(%s[0][1] * 2 + %s[1] + %s[0][0] * 5)",
            "bool": "(4 if %s is True else (1 if %s is False else 9))"}[d["t"]].replace("%s", name)


def bump_typed(rng, d):
    """A different value of the same kind whose use gives a different int (types may move between
    clearly distinct ones: None -> False -> 0, True -> 1)."""
    if not isinstance(d, dict):
        return d + rng.randint(1, 5)
    t, v = d["t"], d["v"]
    if t in ("str", "bytes"):
        v = v + v[0]
    elif t == "tuple":
        v = (v[:-1] + [v[-1] + rng.randint(1, 3)]) if rng.random() < 0.6 else v + [rng.randint(1, 3)]
    elif t == "fset":
        v = sorted(set(v) ^ {rng.choice([x for x in range(1, 12) if x not in v])})
    elif t == "float":
        v = v + rng.choice([0.25, 0.5, 1.0])
    elif t == "none":
        v = {None: False, False: 0}.get(v, None) if v is None or v is False else None
    elif t == "complex":
        v = [v[0], v[1] + 1] if rng.random() < 0.5 else [v[0] + 1, v[1]]
    elif t == "neg":
        v = v - rng.randint(1, 3)
    elif t == "ntuple":
        v = [[v[0][0], v[0][1] + 1], v[1]] if rng.random() < 0.5 else [[v[0][0] + 1, v[0][1]], v[1]]
    elif t == "bool":
        v = False if v is True else (1 if v is False else True)  # True -> False -> 1 -> True
    return {"t": t, "v": v}


# ---------------------------------------------------------------- generation
def gen_program(rng, pkg, n=None, p_explicit=0.15, p_hidden=0.12, min_memento=2, p_lambda_pair=0.3, p_shadow=0.2,
                p_init=0.3, p_ext=0.3, p_factory=0.3, p_diamond=0.25, p_prev=0.15, p_guard=0.15):
    n = n or rng.randint(3, 7)
    split = rng.randint(0, n - 1)  # nodes [0, split) live in module b, the rest in module a
    shadow = n >= 4 and rng.random() < p_shadow  # a wrapped helper of module b whose wrapper parameter is "a"
    if shadow:
        split = max(split, 3) if n > 3 else split
    nodes = []
    for i in range(n):
        kind = rng.choice(["memento", "memento", "memento", "plain", "plain", "wrapped", "lambda"])
        if i == 0 or (i < min_memento):
            kind = "memento"
        if shadow and i == 2 and split > 2:
            kind = "wrapped"
        name = "f%d" % i
        if kind == "plain" and rng.random() < 0.25:
            free = [b for b in BUILTIN_NAMES if not any(n["name"] == b for n in nodes)]
            if free:
                name = rng.choice(free)  # a project helper that shadows a builtin
        nd = {"name": name, "mod": "b" if i < split else "a", "kind": kind, "version": None,
              "params": [["x", None]], "kwonly": [], "const": rng.randint(1, 9), "tconst": None, "sconst": None,
              "op": rng.choice(["+", "-", "*"]), "nested": None, "reads": [], "calls": [], "wrap_param": None,
              "swap": False, "tfn": "sum"}
        if kind == "memento" and rng.random() < p_explicit:
            nd["version"] = "v1"
        if rng.random() < 0.4:
            nd["params"].append(["y", gen_typed(rng)])
        if rng.random() < 0.3:
            nd["kwonly"].append(["k", gen_typed(rng)])
        if rng.random() < 0.45:
            nd["xconst"] = gen_typed(rng, rng.choice([t for t in DTYPES if t not in ("int", "none", "bool")]))
        if rng.random() < 0.4:
            nd["tconst"] = [rng.randint(1, 9) for _ in range(rng.randint(2, 3))]
        if rng.random() < 0.5:
            nd["sconst"] = sorted(rng.sample(["alpha", "beta", "gamma", "delta", "eps", "zeta"], rng.randint(2, 4)))
        if kind in ("memento", "plain") and (nd["const"] + i) % 3 == 0:  # (no random draw)
            # a string constant that lives in a nested code object of the body: the filter or the element expression of a
            # generator expression, a lambda
            nd["gx"] = {"shape": ["filter", "elem", "lam"][(nd["const"] + 2 * i) % 3], "s": "alpha"}
        if kind in ("memento", "plain") and (nd["const"] + i) % 4 == 2:  # (no random draw)
            nd["lamdefault"] = nd["const"] + 1  # a keyword-only parameter whose default value is a lambda
        if kind == "wrapped" and shadow and i == 2 and split > 2:
            nd["wrap_param"] = "a"
        elif kind == "wrapped":
            nd["wrap_param"] = "a" if (nd["mod"] == "b" and rng.random() < 0.8) else rng.choice(WRAP_PARAMS)
        if kind == "wrapped" and nd["const"] % 2 == 0:  # (no random draw) the decorator takes an argument
            nd["deco_arg"] = nd["const"] + 1
        if kind == "wrapped" and nd["const"] % 3 == 1:  # (no random draw) the decorator does without functools.wraps
            nd["nowraps"] = True
        nodes.append(nd)
    # now and then one function uses two different module-level lambdas (they share a qualified name)
    if n >= 4 and rng.random() < p_lambda_pair:
        pair = rng.sample(range(max(split, 2), n), 2) if n - max(split, 2) >= 2 else []
        for j in pair:
            nodes[j]["kind"] = "lambda"
            nodes[j]["version"] = None
        lambda_pair = sorted(pair)
    else:
        lambda_pair = []
    # now and then two helpers come out of one factory: two function objects, one code object, different defaults
    factory_pair = []
    if n >= 4 and rng.random() < p_factory:
        cand_f = [j for j in range(max(split, 2), n) if nodes[j]["kind"] in ("plain", "memento", "wrapped") and j not in lambda_pair
                  and not (shadow and j == 2)]
        if len(cand_f) >= 2:
            lead, foll = sorted(cand_f[-2:] if rng.random() < 0.7 else rng.sample(cand_f, 2))  # late: more users above
            dt = rng.choice([t for t in DTYPES if t not in ("none", "bool")])
            for j in (lead, foll):
                d = gen_typed(rng, dt)
                nodes[j].update(kind="product", version=None, params=[["x", None], ["y", d]], kwonly=[], tconst=None,
                                sconst=None, wrap_param=None, xconst=None)
            while dlit(nodes[foll]["params"][1][1]) == dlit(nodes[lead]["params"][1][1]):
                nodes[foll]["params"][1][1] = bump_typed(rng, nodes[foll]["params"][1][1])
            nodes[foll]["of"] = lead
            factory_pair = [lead, foll]
            # (by the value of the pair's first default, no random draw: the products keep the factory's argument in a
            # closure cell instead of a default value)
            if len(dlit(nodes[lead]["params"][1][1])) % 2 == 0:
                nodes[lead]["closure"] = True
    # now and then the last functions of the package live in its __init__.py ...
    init_chain = None
    if n >= 4 and rng.random() < p_init:
        for j in range(n - 1, n - 1 - rng.randint(1, 2), -1):
            nd = nodes[j]
            if nd["mod"] != "a" or nd["kind"] not in ("memento", "plain") or j < 2:
                break
            nd["mod"] = "i"
        if nodes[n - 2]["mod"] == "i" and rng.random() < 0.6:
            # a memento function of __init__.py that sub-modules reach through a plain helper of __init__.py only
            nodes[n - 2].update(kind="plain", version=None)
            nodes[n - 1]["kind"] = "memento"
            init_chain = n - 2
    # ... and the program uses another package: memento functions and plain helpers (leaves) of <pkg>_ext.lib
    n_main = n
    if rng.random() < p_ext:
        for k in range(rng.randint(2, 3)):
            kind = "memento" if k == 0 else ("plain" if k == 1 else rng.choice(["memento", "plain"]))
            nodes.append({"name": "f%d" % (n + k), "mod": "e", "kind": kind, "version": None, "params": [["x", None]], "kwonly": [],
                          "const": rng.randint(1, 9), "tconst": None, "sconst": None, "op": rng.choice(["+", "-", "*"]),
                          "nested": None, "reads": [], "calls": [], "wrap_param": None, "swap": False, "tfn": "sum"})
        n = len(nodes)
    # variables
    vars_ = []
    for j in range(rng.randint(1, 4)):
        t = rng.choice(["num", "num", "str", "list", "dict", "date", "tuplist", "seq"])
        val = {"tuplist": lambda: [rng.randint(0, 5), [rng.randint(0, 5) for _ in range(rng.randint(0, 2))]],  # (k, [..])
               # a sequence that is a tuple or a list ([kind, items]); the functions that read it tell the two apart
               "seq": lambda: [rng.choice(["tuple", "list"]), [rng.randint(0, 5) for _ in range(rng.randint(1, 3))]],
               "num": lambda: rng.choice([rng.randint(0, 9), rng.randint(0, 9) + 0.5, True]),
               "str": lambda: "s" * rng.randint(1, 5), "list": lambda: [rng.randint(0, 5) for _ in range(rng.randint(0, 3))],
               "dict": lambda: {"k": rng.randint(0, 9), "z": rng.randint(0, 3)},
               "date": lambda: "20%02d-0%d-1%d" % (rng.randint(0, 30), rng.randint(1, 9), rng.randint(0, 9))}[t]()
        vmod = rng.choice(["a", "a", "b"]) if split > 0 else "a"
        if has_mod({"nodes": nodes}, "i") and rng.random() < 0.3:
            vmod = "i"
        vars_.append({"name": "G%d" % j, "mod": vmod, "type": t, "value": val})
        if t == "dict" and (val["k"] + val["z"]) % 2 == 0:
            # the dictionary is built from a set of pairs: equal in every process, but its insertion order follows the
            # process's string hashing
            val["y"] = (val["k"] + val["z"]) % 5
            vars_[-1]["from_set"] = True
    # call edges, variable reads, nested code
    for i, nd in enumerate(nodes):
        if nd["kind"] == "lambda":
            nd.update(params=[["x", None]], kwonly=[], tconst=None, sconst=None, version=None)
            continue
        if nd["kind"] == "product":
            continue  # leaves: the body is shared by all products of the factory
        if nd["mod"] == "e" and nd["kind"] != "memento":
            continue  # plain helpers of the other package are leaves
        later = targets(nodes, i)
        for _ in range(rng.choice([0, 1, 1, 2]) if later else 0):
            t = rng.choice(later)
            nd["calls"].append(new_call(rng, nodes, i, t, p_hidden))
        readable = [j for j, v in enumerate(vars_) if can_read(nd, v)]
        for j in rng.sample(readable, min(len(readable), rng.choice([0, 1, 1, 2]))):
            nd["reads"].append({"v": j, "form": read_form(rng, nd, vars_[j])})
        if rng.random() < 0.4:
            k = rng.choice(["lambda", "comp", "inner"])
            nd["nested"] = {"kind": k, "const": rng.randint(10, 19),
                            "call": (rng.choice(later) if later and k == "inner" and rng.random() < 0.6 else None)}
            if nd["nested"]["call"] is not None:
                f = call_form(rng, nodes, i, nd["nested"]["call"], 0.0)
                nd["nested"]["form"] = "bare" if f == "alias" else f
            # now and then the nested scope binds a name that the enclosing function also uses as a global
            if rng.random() < 0.45:
                inner_t = nodes[nd["nested"]["call"]]["name"] if nd["nested"]["call"] is not None else None
                pool = [vars_[rd["v"]]["name"] for rd in nd["reads"] if rd["form"] == "bare"]
                # (callees of the same module only: a name imported for a call stays bound in a running process after
                # an edit removed the call, which a fresh import of the edited text would not have)
                pool += [nodes[c["t"]]["name"] for c in nd["calls"] if c["form"] in ("bare", "chain") and nodes[c["t"]]["mod"] == nd["mod"]
                         and nodes[c["t"]]["kind"] != "memento"]
                pool = [p_ for p_ in pool if p_ != inner_t and p_ not in BUILTIN_NAMES]
                if pool:
                    nd["nested"]["param"] = rng.choice(pool)
    in_a = [j for j in range(split, n_main) if nodes[j]["mod"] == "a"]
    if shadow and split > 2 and in_a:
        # ... it is called by a memento function and reaches module a as a.<name> only
        u = rng.choice([0, 1])
        if not any(c["t"] == 2 for c in nodes[u]["calls"]):
            nodes[u]["calls"].append({"t": 2, "form": "bare"})
        t = rng.choice(in_a)
        if not any(c["t"] == t for c in nodes[2]["calls"]):
            nodes[2]["calls"].append({"t": t, "form": "attr"})
    # now and then a diamond of memento functions with a plain helper below the join: u -> m1, m2 -> j -> h
    mem_main = [i for i in range(n_main) if nodes[i]["kind"] == "memento"]
    if len(mem_main) >= 4 and rng.random() < p_diamond:
        u, m1, m2, j = sorted(rng.sample(mem_main, 4))
        ok = lambda a_, b_: MODS.index(nodes[b_]["mod"]) >= MODS.index(nodes[a_]["mod"])
        if ok(u, m1) and ok(u, m2) and ok(m1, j) and ok(m2, j):
            for a_, b_ in ((u, m1), (u, m2), (m1, j), (m2, j)):
                if not any(c["t"] == b_ for c in nodes[a_]["calls"]):
                    nodes[a_]["calls"].append({"t": b_, "form": "bare"})
            below = [h for h in targets(nodes, j) if nodes[h]["kind"] in ("plain", "wrapped") and nodes[h]["mod"] == nodes[j]["mod"]]
            if below and not any(nodes[c["t"]]["kind"] in ("plain", "wrapped") for c in nodes[j]["calls"]):
                nodes[j]["calls"].append({"t": rng.choice(below), "form": "bare"})
    if init_chain is not None:
        if not any(c["t"] == init_chain + 1 for c in nodes[init_chain]["calls"]):
            nodes[init_chain]["calls"].append({"t": init_chain + 1, "form": "bare"})
        users = [i for i in range(init_chain) if nodes[i]["kind"] in ("memento", "plain") and nodes[i]["mod"] in ("a", "b")]
        if users:
            u = rng.choice(users)
            if not any(c["t"] == init_chain for c in nodes[u]["calls"]):
                nodes[u]["calls"].append({"t": init_chain, "form": rng.choice(["bare", "pattr"])})
    ext_m = [j for j in range(n_main, n) if nodes[j]["kind"] == "memento"]
    ext_p = [j for j in range(n_main, n) if nodes[j]["kind"] == "plain"]
    if ext_m and ext_p:
        # one function of the main package names both a memento function and a plain helper of the other package
        users = [i for i in range(n_main) if nodes[i]["kind"] in ("memento", "plain")]
        u = rng.choice(users)
        for t in (rng.choice(ext_m), rng.choice(ext_p)):
            if not any(c["t"] == t for c in nodes[u]["calls"]):
                nodes[u]["calls"].append({"t": t, "form": rng.choice(["bare", "bare", "xattr"])})
    if factory_pair:
        # ... used by two different memento functions
        users = [i for i in range(factory_pair[0]) if nodes[i]["kind"] == "memento"]
        if len(users) >= 2:
            for u, j in zip(rng.sample(users, 2), factory_pair):
                if not any(c["t"] == j for c in nodes[u]["calls"]):
                    nodes[u]["calls"].append({"t": j, "form": "bare"})
    if lambda_pair:
        users = [i for i in range(lambda_pair[0]) if nodes[i]["kind"] not in ("lambda", "product")]
        if users:
            u = rng.choice(users)
            for j in lambda_pair:
                if not any(c["t"] == j for c in nodes[u]["calls"]):
                    f = "attr" if (nodes[u]["mod"] == "b" and rng.random() < 0.3) else "bare"
                    nodes[u]["calls"].append({"t": j, "form": f})
    if p_guard and rng.random() < p_guard:
        # a call that fails stands inside a try block (its failure is handled) - or, after an edit, right after it
        gc = [j for j in range(n) if nodes[j]["kind"] in ("memento", "plain") and nodes[j]["mod"] != "e"]
        if gc:
            nodes[rng.choice(gc)]["guard"] = {"inside": rng.random() < 0.8, "k": rng.randint(1, 9)}
    if p_prev and rng.random() < p_prev:
        # a plain helper that was defined twice: the name <helper>_old still refers to the earlier definition, and one
        # function of its module uses both
        pl = [j for j in range(1, n) if nodes[j]["kind"] == "plain" and nodes[j]["mod"] in ("a", "b")
              and any(nodes[u]["mod"] == nodes[j]["mod"] and nodes[u]["kind"] in ("memento", "plain") for u in range(j))]
        if pl:
            j = rng.choice(pl)
            nodes[j]["prev"] = {"const": nodes[j]["const"] + rng.randint(1, 5) + 20}
            u = rng.choice([u for u in range(j) if nodes[u]["mod"] == nodes[j]["mod"] and nodes[u]["kind"] in ("memento", "plain")])
            if not any(c["t"] == j and c["form"] == "bare" for c in nodes[u]["calls"]):
                nodes[u]["calls"].append({"t": j, "form": "bare"})
            nodes[u]["calls"].append({"t": j, "form": "old"})
    aliases = []
    for i, nd in enumerate(nodes):
        for c in list(nd["calls"]):
            if c["form"] == "alias":
                ensure_alias(aliases, nodes, c, nd)
                if rng.random() < 0.35 and len(nd["calls"]) < 4:  # ... and by its own name as well
                    nd["calls"].append({"t": c["t"], "form": "bare"})
    return {"pkg": pkg, "split": split, "nodes": nodes, "vars": vars_, "aliases": aliases, "serial": 0}


def targets(nodes, i):
    """Nodes that node i may call: later ones, in its own or a later module location."""
    return [t for t in range(i + 1, len(nodes)) if MODS.index(nodes[t]["mod"]) >= MODS.index(nodes[i]["mod"])]


def can_read(nd, var):
    """A function reads variables of its own module, or of a later main-package module."""
    if nd["mod"] == "e":
        return False
    return var["mod"] == nd["mod"] or MODS.index(var["mod"]) > MODS.index(nd["mod"])


def call_form(rng, nodes, i, t, p_hidden):
    src, dst = nodes[i], nodes[t]
    if dst["mod"] == "e" and dst["kind"] != "memento":
        # a plain helper of another package is named directly; an alias of it could be re-bound by an edit
        # that memento, by design, does not follow beyond the package
        return "bare" if src["mod"] == "e" else rng.choice(["bare", "xattr"])
    forms = ["bare", "bare", "alias", "chain"]
    if dst["kind"] == "memento" and rng.random() < 0.25:
        return rng.choice(["mod_fl", "mod_pt", "mod_cb"])
    if src["mod"] == "b" and dst["mod"] == "a":
        if src["kind"] == "wrapped":
            return "attr"  # wrapped helpers of module b reach module a as a.<name>
        forms += ["attr", "attr"]
    if dst["mod"] == "i" and src["mod"] in ("a", "b"):
        forms += ["pattr"]  # pk.<name> with `import <pkg> as pk`
    if dst["mod"] == "e" and src["mod"] != "e":
        forms += ["xattr"]  # lib.<name> with `import <pkg>_ext.lib as lib`
    if src["mod"] == dst["mod"] and dst["kind"] == "memento" and rng.random() < p_hidden:
        return "hidden"
    return rng.choice(forms)


def new_call(rng, nodes, i, t, p_hidden):
    c = {"t": t, "form": call_form(rng, nodes, i, t, p_hidden)}
    if c["form"] == "hidden" and (i + t) % 2:  # (no draw) the callee is looked up in a registry of the module instead
        c["via"] = "reg"
    return c


def registry(prog, mod):
    """Names of the memento functions that the module's registry of handlers holds."""
    return sorted({prog["nodes"][c["t"]]["name"] for nd in prog["nodes"] if nd["mod"] == mod
                   for c in nd["calls"] if c["form"] == "hidden" and c.get("via") == "reg"})


def registry_statement(prog, mod):
    return "HANDLERS = {%s}\n" % ", ".join("%r: %s" % (n, n) for n in registry(prog, mod))


def read_form(rng, nd, var):
    if nd["mod"] == "b" and var["mod"] == "a":
        return "attr" if nd["kind"] == "wrapped" else rng.choice(["bare", "attr"])
    if var["mod"] == "i" and nd["mod"] in ("a", "b"):
        return rng.choice(["bare", "pattr"])
    return "bare"


def ensure_alias(aliases, nodes, call, src):
    """An alias lives in the caller's module: alias_<mod>_<target>[_n] = <target>. An existing alias is
    re-used only while it still names the wanted target (aliases get re-bound by edits)."""
    base = "alias_%s_%s" % (src["mod"], nodes[call["t"]]["name"])
    for al in aliases:
        if al["mod"] == src["mod"] and al["target"] == call["t"] and al["name"].startswith(base):
            call["alias"] = al["name"]
            return
    name, n = base, 1
    while any(al["name"] == name and al["mod"] == src["mod"] for al in aliases):
        n += 1
        name = "%s_%d" % (base, n)
    aliases.append({"name": name, "mod": src["mod"], "target": call["t"]})
    call["alias"] = name


# ---------------------------------------------------------------- rendering
def read_expr(var, form):
    ref = {"attr": "a.", "pattr": "pk."}.get(form, "") + var["name"]
    return {"num": "(int(%s * 2) + (3 if isinstance(%s, float) else 0) + (5 if isinstance(%s, bool) else 0))" % (ref, ref, ref),
            "str": "len(%s)" % ref, "list": "sum(%s)" % ref,
            "dict": "(%s[\"k\"] + len(%s))" % (ref, ref), "date": "%s.year" % ref,
            "tuplist": "(%s[0] + sum(%s[1]) + len(%s[1]))" % (ref, ref, ref),
            "seq": "(sum(%s) + (5 if isinstance(%s, tuple) else 0))" % (ref, ref)}[var["type"]]


def var_literal(var):
    if var["type"] == "tuplist":
        return repr((var["value"][0], list(var["value"][1])))
    if var["type"] == "seq":
        return repr(tuple(var["value"][1]) if var["value"][0] == "tuple" else list(var["value"][1]))
    if var["type"] == "date":
        y, mo, d = var["value"].split("-")
        return "datetime.date(%d, %d, %d)" % (int(y), int(mo), int(d))
    if var.get("from_set"):
        return "dict({%s})" % ", ".join(repr(kv) for kv in var["value"].items())
    return repr(var["value"])


def call_expr(prog, nd, c, arg="x"):
    t = prog["nodes"][c["t"]]
    if c["form"] == "bare":
        return "%s(%s)" % (t["name"], arg)
    if c["form"] == "mod_fl":  # the callee is reached through attributes of its own name: call modifiers
        return "%s.force_local()(%s)" % (t["name"], arg)
    if c["form"] == "mod_pt":
        return "%s.partial(%s).call()" % (t["name"], arg)
    if c["form"] == "mod_cb":
        return "%s.call_batch([{\"x\": %s}])[0]" % (t["name"], arg)
    if c["form"] == "chain":  # the callee is named only inside the argument list of a call whose result is used through an attribute
        return "box(%s(%s)).plus(0).v" % (t["name"], arg)
    if c["form"] == "kw2":  # both parameters bound by keyword (same module only)
        return "%s(x=%s, y=2)" % (t["name"], arg)
    if c["form"] == "attr":
        return "a.%s(%s)" % (t["name"], arg)
    if c["form"] == "pattr":
        return "pk.%s(%s)" % (t["name"], arg)
    if c["form"] == "xattr":
        return "lib.%s(%s)" % (t["name"], arg)
    if c["form"] == "palias":  # a module-level modifier clone that binds the argument: called without one
        return "%s()" % c["alias"]
    if c["form"] == "alias":
        return "%s(%s)" % (c["alias"], arg)
    if c["form"] == "old":  # the earlier definition of the helper, through the name that still refers to it
        return "%s_old(%s)" % (t["name"], arg)
    if c.get("via") == "reg":  # hidden dynamic call through a module-level dictionary that holds the functions
        return "HANDLERS[\"%s\"](%s)" % (t["name"], arg)
    return "globals()[\"%s\"](%s)" % (t["name"], arg)  # hidden dynamic call


def render_factory(prog, i):
    nd = prog["nodes"][i]
    first = ("x %s %d" % (nd["op"], nd["const"])) if not nd["swap"] else ("%d %s x" % (nd["const"], nd["op"]))
    d = nd["params"][1][1]
    if nd.get("closure"):  # the factory's argument lives on in a closure cell of the product
        return "\n".join(["def mk_%s(k_):" % nd["name"], "    def made(x):", "        REC.hit('made_%s', x, k_)" % nd["name"],
                          "        r = %s" % first, "        r += %s" % duse("k_", d), "        return r", "    return made", "", ""])
    return "\n".join(["def mk_%s(k_):" % nd["name"], "    def made(x, y=k_):", "        REC.hit('made_%s', x, y)" % nd["name"],
                      "        r = %s" % first, "        r += %s" % duse("y", d), "        return r", "    return made", "", ""])


def render_def(prog, i, skip_names=()):
    """Source text of one definition (decorators included)."""
    nd = prog["nodes"][i]
    if nd["kind"] == "lambda":
        first = ("x %s %d" % (nd["op"], nd["const"])) if not nd["swap"] else ("%d %s x" % (nd["const"], nd["op"]))
        if nd["const"] % 2 == 0:  # (no random draw) the lambda stands on a continuation line, inside a call that wraps it
            return "%s = functools.lru_cache(maxsize=None)(\n    lambda x: %s)\n" % (nd["name"], first)
        return "%s = lambda x: %s\n" % (nd["name"], first)
    if nd["kind"] == "product":
        if nd.get("of") is not None:  # a further product of the leader's factory
            return "%s = mk_%s(%s)\n" % (nd["name"], prog["nodes"][nd["of"]]["name"], dlit(nd["params"][1][1]))
        return render_factory(prog, i) + "".join(
            "%s = mk_%s(%s)\n" % (o["name"], nd["name"], dlit(o["params"][1][1]))
            for o in [nd] + [o for o in prog["nodes"] if o.get("of") == i and o["kind"] == "product" and o["name"] not in skip_names])
    ps = [p if d is None else "%s=%s" % (p, dlit(d)) for p, d in nd["params"]]
    if nd["kwonly"]:
        ps.append("*")
        ps += ["%s=%s" % (p, dlit(d)) for p, d in nd["kwonly"]]
    names = [p for p, _ in nd["params"]] + [p for p, _ in nd["kwonly"]]
    if nd.get("cbdefault") is not None:  # a memento function of the same module is the default value of a parameter
        if not nd["kwonly"]:
            ps.append("*")
        ps.append("cb_=%s" % prog["nodes"][nd["cbdefault"]]["name"])
    if nd.get("lamdefault") is not None:  # the default value of a parameter is a lambda
        if not nd["kwonly"] and nd.get("cbdefault") is None:
            ps.append("*")
        ps.append("lam_=lambda v_: v_ * 2 + %d" % nd["lamdefault"])
    L = []
    if nd["kind"] == "memento":
        L.append("@m.memento_function" + ("(version=%r)" % nd["version"] if nd["version"] is not None else ""))
    elif nd["kind"] == "wrapped":
        wp = nd["wrap_param"]
        if nd.get("deco_arg") is not None:  # a decorator with an argument, which its wrapper closes over
            L += ["def deco_%s(k_):" % nd["name"], "    def outer(fn):"] + ([] if nd.get("nowraps") else ["        @functools.wraps(fn)"]) + [
                  "        def wrapper(%s, *rest, **kw):" % wp, "            return fn(%s, *rest, **kw) + k_" % wp,
                  "        return wrapper", "    return outer", "", "@deco_%s(%d)" % (nd["name"], nd["deco_arg"])]
        else:
            L += ["def deco_%s(fn):" % nd["name"]] + ([] if nd.get("nowraps") else ["    @functools.wraps(fn)"]) + [
                  "    def wrapper(%s, *rest, **kw):" % wp, "        return fn(%s, *rest, **kw)" % wp, "    return wrapper", "",
                  "@deco_%s" % nd["name"]]
    if nd.get("prev"):  # (the earlier definition comes before the decorators of the current one)
        L[0:0] = (["@m.memento_function"] if nd["kind"] == "memento" else []) + [  # (an earlier edition of a memento function is one too)
                  "def %s(x):" % nd["name"], "    REC.hit(%r, x)" % (nd["name"] + "_old"), "    return x * 2 + %d" % nd["prev"]["const"], "",
                  "%s_old = %s" % (nd["name"], nd["name"]), ""]
    L.append("def %s(%s):" % (nd["name"], ", ".join(ps)))
    L.append("    REC.hit(%r, %s)" % (nd["name"], ", ".join(names)))
    first = ("x %s %d" % (nd["op"], nd["const"])) if not nd["swap"] else ("%d %s x" % (nd["const"], nd["op"]))
    L.append("    r = %s" % first)
    if nd.get("guard"):
        g = nd["guard"]
        L += ["    ga_, gb_ = int, boom", "    try:", "        gp_ = ga_(x)"] + (["        gq_ = gb_(x)"] if g["inside"] else []) + [
            "    except ValueError:", "        return -%d" % g["k"]] + ([] if g["inside"] else ["    gq_ = gb_(x)"]) + ["    r += gp_ + gq_"]
    if nd["tconst"]:
        L.append("    tc_ = %r" % (tuple(nd["tconst"]),))
        L.append("    r += %s(tc_) + tc_[0] * 3 - tc_[-1]" % nd.get("tfn", "sum"))  # order-sensitive
    if nd.get("xconst") is not None:
        L.append("    xc_ = %s" % dlit(nd["xconst"]))
        L.append("    r += %s" % duse("xc_", nd["xconst"]))
    if nd["sconst"]:
        # a set constant of strings, of bytes, or of tuples that hold strings (by the number of members: no random draw)
        wrap = {2: lambda s_: repr(s_), 3: lambda s_: repr(s_.encode()), 4: lambda s_: repr((s_, len(s_)))}[len(nd["sconst"])] \
            if len(nd["sconst"]) in (2, 3, 4) else repr
        L.append("    if %s in {%s}:" % (wrap("alpha"), ", ".join(wrap(s_) for s_ in nd["sconst"])))
        L.append("        r += 1")
    if nd.get("gx"):
        g = nd["gx"]
        L.append({"filter": "    r += sum(1 for s_ in ('alpha', 'beta', 'gamma') if s_ != %r)",
                  "elem": "    r += sum(len(s_ + %r) for s_ in ('a', 'bb'))",
                  "lam": "    r += len((lambda q_: q_ + %r)('z'))"}[g["shape"]] % g["s"])
    for rd in nd["reads"]:
        L.append("    r += %s" % read_expr(prog["vars"][rd["v"]], rd["form"]))
    for ci, c in enumerate(nd["calls"]):
        if c["form"] == "alias":  # (weighted: which alias names which function matters, not only the set of functions called)
            L.append("    r += %d * %s" % (ci + 2, call_expr(prog, nd, c, "x + 1")))
        else:
            L.append("    r += %s" % call_expr(prog, nd, c, "x + 1"))
    if nd.get("cbdefault") is not None:
        L.append("    r += cb_(x + 1)")
    if nd.get("lamdefault") is not None:
        L.append("    r += lam_(x)")
    ne = nd["nested"]
    if ne:
        tp = ne.get("param") or "t_"  # the name the nested scope binds
        if ne["kind"] == "lambda":
            L.append("    r += (lambda %s: %s + %d)(x)" % (tp, tp, ne["const"]))
        elif ne["kind"] == "comp":
            L.append("    r += sum([%s * %d for %s in range(3)])" % (tp, ne["const"], tp))
        else:
            inner = "%s + %d" % (tp, ne["const"])
            if ne["call"] is not None:
                inner += " + " + call_expr(prog, nd, {"t": ne["call"], "form": ne["form"], "alias": ne.get("alias")}, tp)
            L += ["    def inner(%s):" % tp, "        return " + inner, "    r += inner(x)"]
    for p, d in nd["params"][1:] + nd["kwonly"]:
        L.append("    r += %s" % duse(p, d))
    for late in nd.get("late", []):
        L += ["    if x < -1000:", "        r += %s(x)" % late]  # referenced, never executed
    if nd.get("late_glob"):  # a global of this module that is bound only at the end of the module, named like an attribute module a lacks
        L += ["    if x < -1000:", "        r += a.%s(x)" % nd["late_glob"], "        r += %s(x)" % nd["late_glob"]]
    for late in nd.get("late_both", []):  # (module b) the same name as a global of this module and as an attribute of module a
        L += ["    if x < -1000:", "        r += %s(x)" % late, "        r += a.%s(x)" % late]
    L.append("    return r")
    if nd.get("pswap"):
        # the parameters x and y exchange their names, in the signature and throughout the body: the same instructions,
        # other names for the slots (it matters to callers that bind by keyword)
        import re

        k = next(n for n, ln in enumerate(L) if ln.startswith("def %s(" % nd["name"]))
        swap = lambda ln: re.sub(r"\b([xy])\b", lambda mo: "y" if mo.group(1) == "x" else "x", ln)
        L[k:] = [swap(ln) for ln in L[k:]]
    return "\n".join(L) + "\n"


def all_calls(nd):
    out = list(nd["calls"])
    if nd["nested"] and nd["nested"]["call"] is not None:
        out.append({"t": nd["nested"]["call"], "form": nd["nested"].get("form")})
    return out


def from_imports(prog, mod):
    """{source location: names} that module `mod` copies with `from <source> import <names>`: functions of other
    modules called by bare name or aliased here, variables of other modules read by bare name."""
    names = {}
    for nd in prog["nodes"]:
        if nd["mod"] != mod:
            continue
        for c in all_calls(nd):
            t = prog["nodes"][c["t"]]
            if t["mod"] != mod and c["form"] in ("bare", "chain", "mod_fl", "mod_pt", "mod_cb"):
                names.setdefault(t["mod"], set()).add(t["name"])
        for rd in nd["reads"]:
            v = prog["vars"][rd["v"]]
            if v["mod"] != mod and rd["form"] == "bare":
                names.setdefault(v["mod"], set()).add(v["name"])
    for al in prog["aliases"]:
        t = prog["nodes"][al["target"]]
        if al["mod"] == mod and t["mod"] != mod:
            names.setdefault(t["mod"], set()).add(t["name"])
    return names


def header(prog, mod, twin, skip=()):
    pkg = ("tw_" if twin else "") + prog["pkg"]
    L = ["import datetime", "import functools", "import vf.twin as m" if twin else "import twosigma.memento as m",
         "from vf.recorder import %s as REC" % ("TWIN_REC" if twin else "REC"), "from vf.twin import box, boom"]
    if mod == "b":
        L.append("import %s.a as a" % pkg)
    if mod in ("a", "b") and has_mod(prog, "i"):
        L.append("import %s as pk" % pkg)
    if mod != "e" and has_mod(prog, "e"):
        L.append("import %s as lib" % modname(prog, "e", twin))
    fi = from_imports(prog, mod)
    for src in ("a", "i", "e"):
        # (names cut out of the base file - `skip` - keep their place in the import statements: whether a name is bound
        # by an import statement of the same compilation unit changes the bytecode of the functions that use it)
        names = fi.get(src, set())
        if names:
            L.append("from %s import %s" % (modname(prog, src, twin), ", ".join(sorted(names))))
    return "\n".join(L) + "\n\n"


def render_module(prog, mod, twin=False, order=None, skip=()):
    parts = [header(prog, mod, twin, skip)]
    for v in prog["vars"]:
        if v["mod"] == mod:
            parts.append("%s = %s\n" % (v["name"], var_literal(v)))
    parts.append("\n")
    idx = [i for i, nd in enumerate(prog["nodes"]) if nd["mod"] == mod]
    if order is not None:
        idx = sorted(idx, key=lambda i: order.index(i))
    for _ in range(len(idx)):  # a function used as a default value is defined before the function that uses it
        moved = False
        for i in list(idx):
            t = prog["nodes"][i].get("cbdefault")
            if t is not None and t in idx and idx.index(t) > idx.index(i):
                idx.remove(t)
                idx.insert(idx.index(i), t)
                moved = True
        if not moved:
            break
    for i in idx:
        nd = prog["nodes"][i]
        if nd["kind"] == "product" and nd.get("of") is not None and prog["nodes"][nd["of"]]["kind"] == "product":
            if nd["name"] in skip:
                parts.append("%s = None\n\n" % nd["name"])
            continue  # rendered with the factory of its leader
        if nd["name"] in skip:
            if nd["kind"] == "product":  # the factory stays (further products may survive); the leader's own binding goes
                parts.append(render_factory(prog, i) + "".join(
                    "%s = mk_%s(%s)\n" % (o["name"], nd["name"], dlit(o["params"][1][1]))
                    for o in prog["nodes"] if o.get("of") == i and o["kind"] == "product" and o["name"] not in skip) + "\n")
            # a placeholder keeps the name importable until the cell that defines it runs
            parts.append("%s = None\n\n" % nd["name"])
            continue
        parts.append(render_def(prog, i, skip) + "\n")
        for al in prog["aliases"]:
            # a module-level modifier clone made right below the definition of its function (before whatever follows it)
            if al.get("early") and al["mod"] == mod and al["target"] == i:
                parts.append("%s = %s.force_local()\n\n" % (al["name"], nd["name"]))
    # (module-level clones keep the version their function has at their line: they come last, below every other name
    # of the module that their function may mention)
    for al in sorted(prog["aliases"], key=lambda a_: a_.get("pclone") is not None or bool(a_.get("clone"))):
        if al.get("early"):
            continue
        if al["mod"] == mod and prog["nodes"][al["target"]]["name"] not in skip:
            if al.get("pclone") is not None:  # a module-level modifier clone of a memento function that binds its argument
                parts.append("%s = %s.partial(%d)\n" % (al["name"], prog["nodes"][al["target"]]["name"], al["pclone"]))
                continue
            if al.get("partial"):  # a module-level functools.partial object around the function (binds nothing)
                parts.append("%s = functools.partial(%s)\n" % (al["name"], prog["nodes"][al["target"]]["name"]))
                continue
            parts.append("%s = %s%s\n" % (al["name"], prog["nodes"][al["target"]]["name"],
                                          ".force_local()" if al.get("clone") else ""))  # (a module-level modifier clone)
    if registry(prog, mod):
        parts.append(registry_statement(prog, mod))
    return "".join(parts)


def write_package(prog, root, twin=False, order=None, skip=()):
    import os

    pkg = ("tw_" if twin else "") + prog["pkg"]
    d = os.path.join(root, pkg)
    os.makedirs(d, exist_ok=True)
    with open(os.path.join(d, "__init__.py"), "w") as f:
        f.write(render_module(prog, "i", twin, order, skip) if (has_mod(prog, "i") or any(v["mod"] == "i" for v in prog["vars"])) else "")
    for mod in ("a", "b"):
        with open(os.path.join(d, mod + ".py"), "w") as f:
            f.write(render_module(prog, mod, twin, order, skip))
    if has_mod(prog, "e"):
        de = os.path.join(root, pkg + "_ext")
        os.makedirs(de, exist_ok=True)
        with open(os.path.join(de, "__init__.py"), "w") as f:
            f.write("")
        with open(os.path.join(de, "lib.py"), "w") as f:
            f.write(render_module(prog, "e", twin, order, skip))
    return d


def render_all(prog, twin=False):
    """The whole program as one text (for witnesses)."""
    return "\n".join("# ---- %s\n%s" % (modname(prog, mod, twin), render_module(prog, mod, twin))
                     for mod in MODS if has_mod(prog, mod) or mod in ("a", "b"))


def cell_statements(old, new, desc, twin=False):
    """Notebook-style delivery of one edit as a list of (module location, source, what it defines): only what
    changed is re-executed.  Whoever re-executes a definition also re-executes the statements that copy it into
    other modules (from-imports, aliases) - otherwise those keep calling the superseded object: plain Python
    semantics, in which an explicit version pinned on the old object can no longer be bumped by the user."""
    out = []
    for mod in MODS:  # names that a module did not import before
        fo, fn = from_imports(old, mod), from_imports(new, mod)
        for src in ("a", "i", "e"):
            for n in sorted(fn.get(src, set()) - fo.get(src, set())):
                out.append((mod, "from %s import %s\n" % (modname(new, src, twin), n), "import " + n))
    changed = list(desc.get("changed_defs", []))
    for i in list(changed):  # re-executing a factory re-creates all its products
        if new["nodes"][i]["kind"] == "product" and new["nodes"][i].get("of") is None:
            changed += [j for j, o in enumerate(new["nodes"]) if o.get("of") == i and o["kind"] == "product" and j not in changed]
    for i in changed:
        out.append((new["nodes"][i]["mod"], render_def(new, i), new["nodes"][i]["name"]))
    redefined = {(new["nodes"][i]["mod"], new["nodes"][i]["name"]) for i in changed}
    for mod in MODS:
        for src, names in sorted(from_imports(new, mod).items()):
            for n in sorted(names):
                if (src, n) in redefined:
                    out.append((mod, "from %s import %s\n" % (modname(new, src, twin), n), "import " + n))
    ridx = set(changed)
    for al in new["aliases"]:
        o = next((x for x in old["aliases"] if x["name"] == al["name"] and x["mod"] == al["mod"]), None)
        # (a module-level modifier clone keeps the version its function had when the statement ran - by construction of
        # clone_with, not judged - so whoever edits anything re-runs the statements that make such clones)
        if (o is None or o["target"] != al["target"] or al["target"] in ridx or o.get("pclone") != al.get("pclone")
                or al.get("pclone") is not None):
            out.append((al["mod"], "%s = %s%s\n" % (al["name"], new["nodes"][al["target"]]["name"],
                                                   ".partial(%d)" % al["pclone"] if al.get("pclone") is not None else ""), al["name"]))
    for mod in MODS:  # a registry is filled again when its content is re-defined or changes
        if registry(new, mod) and (registry(new, mod) != registry(old, mod) or any(n in registry(new, mod) for (mm, n) in redefined if mm == mod)):
            out.append((mod, registry_statement(new, mod), "alias_HANDLERS"))
    if desc.get("var") is not None:
        v = new["vars"][desc["var"]]
        if desc["kind"] == "var_mutate":
            src = ("%s.append(%r)\n" % (v["name"], v["value"][-1])) if v["type"] == "list" else (
                ("%s[1].append(%r)\n" % (v["name"], v["value"][1][-1])) if v["type"] == "tuplist" else
                "%s[\"k\"] = %r\n" % (v["name"], v["value"]["k"]))
        else:
            src = "%s = %s\n" % (v["name"], var_literal(v))
        out.append((v["mod"], src, None))
        # (a module-level clone that binds arguments keeps the version its function has when the statement runs: the
        # statements that make such clones run after the variable has its new value, as in the module's own text)
        late = [c for c in out if ".partial(" in c[1] and c[2] and str(c[2]).startswith(("pc_", "alias_")) and "def " not in c[1]]
        out = [c for c in out if c not in late] + late
    return out


# ---------------------------------------------------------------- graph helpers
def callees(prog, i, include_hidden=True):
    nd = prog["nodes"][i]
    out = [c["t"] for c in nd["calls"] if include_hidden or c["form"] != "hidden"]
    if nd.get("cbdefault") is not None:
        out.append(nd["cbdefault"])
    if nd["nested"] and nd["nested"]["call"] is not None:
        out.append(nd["nested"]["call"])
    return out


def reaches(prog, i, include_hidden=True):
    """Indices of nodes reachable from i (excluding i unless on a cycle; programs are DAGs)."""
    seen, stack = set(), list(callees(prog, i, include_hidden))
    while stack:
        j = stack.pop()
        if j not in seen:
            seen.add(j)
            stack += callees(prog, j, include_hidden)
    return seen


def uses_var(prog, i, vj):
    return any(rd["v"] == vj for rd in prog["nodes"][i]["reads"])


def bump_explicit_above(prog, node=None, var=None):
    """User contract of explicit versions: whoever pins a version bumps it when anything beneath
    the function changes (also through hidden calls and variable reads)."""
    bumped = []
    group = set() if node is None else {node} | {j for j, o in enumerate(prog["nodes"])
                                                 if o.get("of") == node and o["kind"] == "product"}  # a factory's products share its body
    for i, nd in enumerate(prog["nodes"]):
        if nd["kind"] != "memento" or nd["version"] is None:
            continue
        below = reaches(prog, i) | {i}
        hit = (node is not None and bool(group & below)) or (var is not None and any(uses_var(prog, j, var) for j in below))
        if hit:
            prog["serial"] += 1
            nd["version"] = "v%d" % (prog["serial"] + 1)
            bumped.append(i)
    return bumped


def make_alias_swap(rng, prog):
    """(initial edition, next edition, description) or None: one function calls two different functions of its module
    through two aliases (with different weights); the edit lets the two aliases exchange their targets."""
    nodes = prog["nodes"]
    for u, nd in enumerate(nodes):
        ts = [t for t in range(u + 1, len(nodes)) if nodes[t]["mod"] == nd["mod"] and nodes[t]["kind"] in ("memento", "plain")]
        if nd["kind"] != "memento" or nd["version"] is not None or nd["mod"] not in ("a", "b") or len(ts) < 2:
            continue
        p0 = copy.deepcopy(prog)
        n0 = p0["nodes"][u]
        n0["calls"] = [c for c in n0["calls"] if c["form"] != "alias"]
        for t in ts[:2]:
            c = {"t": t, "form": "alias"}
            ensure_alias(p0["aliases"], p0["nodes"], c, n0)
            n0["calls"].append(c)
        res = apply_edit(rng, p0, "swap_aliases")
        if res is None:
            continue
        p1, desc = res
        return p0, p1, desc
    return None


def make_equal_vars(prog):
    """(initial edition, next edition, description) or None: three number variables of module a hold the values
    1, 2, 1 and one memento function of module a reads all of them; the edit sets the third to 2 - the multiset of
    values the function sees changes, the set of distinct values does not."""
    nodes = prog["nodes"]
    users = [i for i, nd in enumerate(nodes) if nd["mod"] == "a" and nd["kind"] in ("memento", "plain")]
    if not users:
        return None
    p0 = copy.deepcopy(prog)
    base = len(p0["vars"])
    for k, val in enumerate([1, 2, 1]):
        p0["vars"].append({"name": "GE%d" % k, "mod": "a", "type": "num", "value": val})
        p0["nodes"][users[0]]["reads"].append({"v": base + k, "form": "bare"})
    p1 = copy.deepcopy(p0)
    p1["vars"][base + 2]["value"] = 2
    desc = {"kind": "var_value", "node": None, "var": base + 2, "note": "takes the value another variable holds"}
    desc["bumped"] = bump_explicit_above(p1, var=base + 2)
    desc["changed_defs"] = sorted(set(desc["bumped"]))
    return p0, p1, desc


def resplit_pair(prog):
    """Two explicitly versioned memento functions of one module that one automatically versioned function calls
    directly by bare name, in the order of their names - or None. Used for aimed histories in which the two version
    strings change while their concatenation stays the same ("1" + "12" -> "11" + "2")."""
    nodes = prog["nodes"]
    for u, nd in enumerate(nodes):
        if nd["kind"] != "memento" or nd["version"] is not None:
            continue
        ts = sorted({c["t"] for c in nd["calls"] if c["form"] == "bare" and nodes[c["t"]]["kind"] == "memento"
                     and nodes[c["t"]]["mod"] == nd["mod"]}, key=lambda t: nodes[t]["name"])
        for a, b in zip(ts, ts[1:]):
            return u, a, b
    return None


def make_resplit(prog):
    """(initial edition, next edition, description) for a program that has a resplit pair, else None: the pair is
    pinned to versions "1" and "12"; the edit changes both bodies and re-pins them to "11" and "2"."""
    pair = resplit_pair(prog)
    if pair is None:
        return None
    u, a, b = pair
    p0 = copy.deepcopy(prog)
    p0["nodes"][a]["version"], p0["nodes"][b]["version"] = "1", "12"
    p1 = copy.deepcopy(p0)
    p1["nodes"][a]["version"], p1["nodes"][b]["version"] = "11", "2"
    p1["nodes"][a]["const"] += 3
    p1["nodes"][b]["const"] += 5
    desc = {"kind": "resplit", "node": a, "var": None, "changed_defs": [a, b]}
    # (the user's contract: explicitly versioned functions above the two are bumped as well)
    desc["bumped"] = sorted(set(bump_explicit_above(p1, node=a)) | set(bump_explicit_above(p1, node=b)))
    for i in desc["bumped"]:
        if i in (a, b):
            p1["nodes"][i]["version"] = "11" if i == a else "2"
    desc["changed_defs"] = sorted(set(desc["changed_defs"]) | set(desc["bumped"]))
    return p0, p1, desc


# ---------------------------------------------------------------- edit operators
def apply_special(rng, prog, kind):
    """Edits used by C13 only: late-defined symbols and memento <-> plain switches."""
    p = copy.deepcopy(prog)
    nodes = p["nodes"]
    desc = {"kind": kind, "var": None}
    cand = list(range(len(nodes)))
    rng.shuffle(cand)
    if kind == "late_ref":
        both = [i for i in cand if nodes[i]["mod"] == "b" and nodes[i]["kind"] in ("memento", "plain")]
        if both and rng.random() < 0.4:
            # a function of module b names the symbol twice: as a global of its own module (never defined) and as an
            # attribute of module a (defined later)
            i = both[0]
            name = "late_%d" % (p["serial"] + len(nodes))
            p["serial"] += 1
            nodes[i].setdefault("late_both", []).append(name)
            desc.update(node=i, changed_defs=[i], late=name)
            return p, desc
        cand = [i for i in cand if nodes[i]["mod"] == "a"]  # module a cannot name anything of module b
        if not cand:
            return None
        i = cand[0]
        name = "late_%d" % (p["serial"] + len(nodes))
        p["serial"] += 1
        nodes[i].setdefault("late", []).append(name)
        desc.update(node=i, changed_defs=[i], late=name)
        return p, desc
    if kind == "late_def":
        for i in cand:
            for name in nodes[i].get("late", []) + nodes[i].get("late_both", []):
                if not any(nd["name"] == name for nd in nodes):
                    nodes.append({"name": name, "mod": "a" if name in nodes[i].get("late_both", []) else nodes[i]["mod"],
                                  "kind": rng.choice(["memento", "plain"]),
                                  "version": None, "params": [["x", None]], "kwonly": [], "const": rng.randint(1, 9),
                                  "tconst": None, "sconst": None, "op": "+", "nested": None, "reads": [], "calls": [],
                                  "wrap_param": None, "swap": False})
                    desc.update(node=len(nodes) - 1, changed_defs=[len(nodes) - 1], late=name)
                    return p, desc
        return None
    if kind in ("to_plain", "to_memento"):
        want = "memento" if kind == "to_plain" else "plain"
        for i in cand:
            if nodes[i]["kind"] == want and nodes[i]["version"] is None and i != 0 and nodes[i]["mod"] != "e":
                nodes[i]["kind"] = "plain" if kind == "to_plain" else "memento"
                desc.update(node=i, changed_defs=[i])
                return p, desc
        return None
    raise ValueError(kind)


EDIT_KINDS = ["const", "xconst", "tconst", "tperm", "builtin", "sconst", "nested_const", "op", "swap", "add_param", "default", "kwdefault",
              "add_call", "remove_call", "retarget_call", "retarget_alias", "var_value", "var_mutate", "version_bump",
              "hidden_target", "prev_const", "guard_move", "deco_arg", "swap_aliases", "gx_const", "lamdefault"]


def apply_edit(rng, prog, kind=None, force_var=None, force_node=None):
    """Returns (new program, description) or None when the edit kind does not apply."""
    p = copy.deepcopy(prog)
    nodes = p["nodes"]
    kind = kind or rng.choice(EDIT_KINDS)
    desc = {"kind": kind}
    # plain helpers of the other package are outside the package scope of their callers: never edited
    cand = [i for i in range(len(nodes)) if not (nodes[i]["mod"] == "e" and nodes[i]["kind"] != "memento")]
    rng.shuffle(cand)
    if force_node is not None:
        cand = [force_node]
    if kind in ("add_param", "add_call", "remove_call", "retarget_call"):
        cand = [i for i in cand if nodes[i]["kind"] != "product"]  # signature and (empty) call list are the factory's
    elif kind in ("const", "op", "swap"):
        cand = [i for i in cand if not (nodes[i]["kind"] == "product" and nodes[i].get("of") is not None)]  # the shared body is the leader's

    def done(i=None, var=None, changed=None):
        desc.update({"node": i, "var": var})
        desc["changed_defs"] = sorted(set(changed if changed is not None else ([i] if i is not None else [])))
        desc["bumped"] = bump_explicit_above(p, node=i, var=var)
        desc["changed_defs"] = sorted(set(desc["changed_defs"]) | set(desc["bumped"]))
        return p, desc

    if kind == "const":
        i = cand[0]
        nodes[i]["const"] += rng.randint(1, 5)
        return done(i)
    if kind == "deco_arg":  # the argument of a helper's decorator
        for i in cand:
            if nodes[i].get("deco_arg") is not None:
                nodes[i]["deco_arg"] += rng.randint(1, 5)
                return done(i)
    if kind == "guard_move":  # the failing call moves out of / into the try block (same instructions, other protected range)
        for i in cand:
            if nodes[i].get("guard"):
                nodes[i]["guard"]["inside"] = not nodes[i]["guard"]["inside"]
                return done(i)
    if kind == "prev_const":  # the body of an earlier definition that an old name still refers to
        for i in cand:
            if nodes[i].get("prev"):
                nodes[i]["prev"]["const"] += rng.randint(1, 5)
                return done(i)
    if kind == "xconst":
        for i in cand:
            if nodes[i].get("xconst") is not None:
                nodes[i]["xconst"] = bump_typed(rng, nodes[i]["xconst"])
                return done(i)
    if kind == "tconst":
        for i in cand:
            if nodes[i]["tconst"]:
                nodes[i]["tconst"][rng.randrange(len(nodes[i]["tconst"]))] += rng.randint(1, 4)
                return done(i)
    if kind == "tperm":  # same elements, other order
        for i in cand:
            t = nodes[i]["tconst"]
            if t and t[0] != t[-1]:
                nodes[i]["tconst"] = t[1:] + t[:1] if len(t) > 2 and rng.random() < 0.5 else list(reversed(t))
                return done(i)
    if kind == "builtin":  # changes nothing but a name in co_names
        for i in cand:
            if nodes[i]["tconst"] and len(set(nodes[i]["tconst"])) > 1:
                nodes[i]["tfn"] = {"sum": "max", "max": "min", "min": "sum"}[nodes[i].get("tfn", "sum")]
                return done(i)
    if kind == "sconst":
        for i in cand:
            if nodes[i]["sconst"]:
                s = set(nodes[i]["sconst"])
                s ^= {"alpha"}  # flips membership: behaviour changes
                if len(s) < 2:
                    s |= {"omega", "psi"}
                nodes[i]["sconst"] = sorted(s)
                return done(i)
    if kind == "lamdefault":  # the body of a lambda that is the default value of a parameter
        for i in cand:
            if nodes[i].get("lamdefault") is not None:
                nodes[i]["lamdefault"] += rng.randint(1, 5)
                return done(i)
    if kind == "pclone_arg":  # (aimed use only) the argument bound by a module-level modifier clone
        for al in p["aliases"]:
            if al.get("pclone") is not None:
                al["pclone"] += rng.randint(1, 5)
                users = [i for i, nd in enumerate(nodes) if any(c.get("alias") == al["name"] for c in nd["calls"])]
                desc["alias"] = al["name"]
                # (the clone is program text of its module: none of its users is re-defined, but whoever pins a version
                # above one of them bumps it - that is their contract)
                p2, d2 = done(None, changed=[])
                for i in users:
                    d2["bumped"] = sorted(set(d2["bumped"]) | set(bump_explicit_above(p, node=i)))
                d2["changed_defs"] = sorted(set(d2["bumped"]))
                return p2, d2
    if kind == "pswap":  # (aimed use only) the parameters x and y exchange their names
        for i in cand:
            if nodes[i]["kind"] in ("memento", "plain") and len(nodes[i]["params"]) > 1:
                nodes[i]["pswap"] = not nodes[i].get("pswap")
                return done(i)
    if kind == "gx_const":  # the string constant inside a generator expression / lambda of the body
        for i in cand:
            if nodes[i].get("gx"):
                g = nodes[i]["gx"]
                g["s"] = ({"alpha": "omega"}.get(g["s"], "alpha")) if g["shape"] == "filter" else g["s"] + "x"
                return done(i)
    if kind == "nested_const":
        for i in cand:
            if nodes[i]["nested"]:
                nodes[i]["nested"]["const"] += rng.randint(1, 5)
                return done(i)
    if kind == "op":
        i = cand[0]
        nodes[i]["op"] = rng.choice([o for o in "+-*" if o != nodes[i]["op"]])
        return done(i)
    if kind == "swap":
        for i in cand:
            if nodes[i]["op"] == "-":
                nodes[i]["swap"] = not nodes[i]["swap"]
                return done(i)
    if kind == "add_param":
        for i in cand:
            names = [q for q, _ in nodes[i]["params"]]
            if "z" not in names:
                nodes[i]["params"].append(["z", gen_typed(rng)])
                return done(i)
    if kind == "default":
        for i in cand:
            if len(nodes[i]["params"]) > 1:
                j = rng.randrange(1, len(nodes[i]["params"]))
                nodes[i]["params"][j][1] = bump_typed(rng, nodes[i]["params"][j][1])
                return done(i)
    if kind == "kwdefault":
        for i in cand:
            if nodes[i]["kwonly"]:
                nodes[i]["kwonly"][0][1] = bump_typed(rng, nodes[i]["kwonly"][0][1])
                return done(i)
    if kind == "add_call":
        for i in cand:
            later = targets(nodes, i)
            if later and len(nodes[i]["calls"]) < 3:
                c = new_call(rng, nodes, i, rng.choice(later), 0.1)
                nodes[i]["calls"].append(c)
                changed = [i]
                if c["form"] == "alias":
                    ensure_alias(p["aliases"], nodes, c, nodes[i])
                    desc["alias_added"] = c["alias"]
                return done(i, changed=changed)
    if kind == "remove_call":
        for i in cand:
            if nodes[i]["calls"]:
                nodes[i]["calls"].pop(rng.randrange(len(nodes[i]["calls"])))
                return done(i)
    if kind == "retarget_call":
        for i in cand:
            later = targets(nodes, i)
            if nodes[i]["calls"] and len(later) > 1:
                k = rng.randrange(len(nodes[i]["calls"]))
                old = nodes[i]["calls"][k]
                t = rng.choice([x for x in later if x != old["t"]])
                c = new_call(rng, nodes, i, t, 0.1)
                nodes[i]["calls"][k] = c
                if c["form"] == "alias":
                    ensure_alias(p["aliases"], nodes, c, nodes[i])
                    desc["alias_added"] = c["alias"]
                return done(i)
    if kind == "swap_aliases":  # two aliases of one module exchange their targets
        als = p["aliases"]
        for i1 in rng.sample(range(len(als)), len(als)):
            for i2 in range(len(als)):
                a1, a2 = als[i1], als[i2]
                if (i1 == i2 or a1["mod"] != a2["mod"] or a1["target"] == a2["target"] or a1.get("clone") or a2.get("clone")
                        or a1.get("pclone") is not None or a2.get("pclone") is not None or a1.get("partial") or a2.get("partial")):
                    continue
                users = [i for i, nd in enumerate(nodes) if any(c.get("alias") in (a1["name"], a2["name"]) for c in nd["calls"])]
                if not users or max(users) >= min(a1["target"], a2["target"]):
                    continue
                if not any(sum(1 for c in nodes[i]["calls"] if c.get("alias") in (a1["name"], a2["name"])) >= 1 for i in users):
                    continue
                a1["target"], a2["target"] = a2["target"], a1["target"]
                for i in users:
                    for c in nodes[i]["calls"]:
                        if c.get("alias") == a1["name"]:
                            c["t"] = a1["target"]
                        elif c.get("alias") == a2["name"]:
                            c["t"] = a2["target"]
                desc["alias"] = a1["name"] + "<->" + a2["name"]
                # (aliases are program text of their module: every user is affected, none is re-defined)
                p2, d2 = done(None, changed=[])
                for i in users:
                    d2["bumped"] = sorted(set(d2["bumped"]) | set(bump_explicit_above(p, node=i)))
                d2["changed_defs"] = sorted(set(d2["bumped"]))
                d2["node"] = users[0]
                return p2, d2
    if kind == "retarget_alias":
        for al in rng.sample(p["aliases"], len(p["aliases"])):
            users = [i for i, nd in enumerate(nodes) if any(c.get("alias") == al["name"] for c in nd["calls"])]
            if not users or al.get("pclone") is not None or al.get("partial") or al.get("clone"):
                continue  # (modifier clones and partial objects keep the kind of function they were made for)
            lo = max(users)
            opts = [t for t in range(lo + 1, len(nodes)) if t != al["target"]
                    and MODS.index(nodes[t]["mod"]) >= MODS.index(al["mod"])
                    and not (nodes[t]["mod"] == "e" and nodes[t]["kind"] != "memento")]
            if opts:
                direct = [t for t in opts if any(c["t"] == t and c["form"] != "alias" for i in users for c in nodes[i]["calls"])]
                al["target"] = rng.choice(direct if direct and rng.random() < 0.6 else opts)
                for i in users:
                    for c in nodes[i]["calls"]:
                        if c.get("alias") == al["name"]:
                            c["t"] = al["target"]
                desc["alias"] = al["name"]
                # an alias is program text of its module: every user is affected, none is re-defined
                p2, d2 = done(None, changed=[])
                for i in users:
                    d2["bumped"] = sorted(set(d2["bumped"]) | set(bump_explicit_above(p, node=i)))
                d2["changed_defs"] = sorted(set(d2["bumped"]))
                d2["node"] = users[0]
                return p2, d2
    if kind in ("var_value", "var_mutate"):
        order = list(range(len(p["vars"])))
        rng.shuffle(order)
        if force_var is not None:
            order = [force_var]
        for j in order:
            v = p["vars"][j]
            if kind == "var_mutate" and v["type"] not in ("list", "dict", "tuplist"):
                continue
            if v["type"] == "num":
                twins = [x for x in [1, 1.0, True, 0, 0.0, False, 2, 2.0] if x == v["value"] and type(x) is not type(v["value"])]
                if twins and rng.random() < 0.5:  # an equal number of another type
                    v["value"] = rng.choice(twins)
                else:
                    v["value"] = rng.choice([x for x in [1, 2, 3, 4.5, 7, True, 0, 2.5, 8, 1.0, 2.0] if x != v["value"] or type(x) is not type(v["value"])])
            elif v["type"] == "str":
                v["value"] = v["value"] + "t"
            elif v["type"] == "list":
                v["value"] = v["value"] + [rng.randint(1, 5)]
                desc["mutation"] = "append"
            elif v["type"] == "dict":
                v["value"] = dict(v["value"], k=v["value"]["k"] + rng.randint(1, 4))
                desc["mutation"] = "setitem"
            elif v["type"] == "seq":  # the same items in the other kind of sequence (now and then other items as well)
                v["value"] = ["list" if v["value"][0] == "tuple" else "tuple",
                              list(v["value"][1]) + ([rng.randint(1, 5)] if rng.random() < 0.3 else [])]
            elif v["type"] == "tuplist":  # a tuple holding a list: the list is extended (in place when mutated)
                v["value"] = [v["value"][0] + (0 if kind == "var_mutate" else 1), list(v["value"][1]) + [rng.randint(1, 5)]]
                desc["mutation"] = "append to the list inside the tuple"
            else:
                v["value"] = "20%02d-01-11" % ((int(v["value"][2:4]) + 1) % 60)
            return done(None, var=j, changed=[])
    if kind == "version_bump":
        for i in cand:
            if nodes[i]["kind"] == "memento" and nodes[i]["version"] is not None:
                p["serial"] += 1
                nodes[i]["version"] = "v%d" % (p["serial"] + 1)
                return done(i)
    if kind == "hidden_target":
        for i in cand:
            for c in nodes[i]["calls"]:
                if c["form"] == "hidden":
                    opts = [t for t in range(i + 1, len(nodes)) if t != c["t"] and nodes[t]["kind"] == "memento"
                            and nodes[t]["mod"] == nodes[i]["mod"]]
                    if opts:
                        c["t"] = rng.choice(opts)
                        return done(i)
    return None


def random_edit(rng, prog, kinds=None, tries=12):
    for _ in range(tries):
        r = apply_edit(rng, prog, rng.choice(kinds or EDIT_KINDS))
        if r is not None:
            return r
    return apply_edit(rng, prog, "const")


def roots(prog):
    return [i for i, nd in enumerate(prog["nodes"]) if nd["kind"] == "memento"]


def features(prog):
    f = set()
    for nd in prog["nodes"]:
        f.add(nd["kind"])
        f.add("module:" + nd["mod"])
        for k in ("tconst", "sconst", "nested"):
            if nd[k]:
                f.add(k)
        if nd["nested"] and nd["nested"].get("param"):
            f.add("nested-scope binds a name used as a global: " + nd["nested"]["kind"])
        for _, d in nd["params"][1:] + nd["kwonly"] + ([["", nd["xconst"]]] if nd.get("xconst") is not None else []):
            f.add("lit:" + (d["t"] if isinstance(d, dict) else "int"))
        if nd["version"] is not None:
            f.add("explicit")
        if len(nd["params"]) > 1:
            f.add("default")
        if nd["kwonly"]:
            f.add("kwdefault")
        for c in nd["calls"]:
            f.add("call:" + c["form"])
        for r in nd["reads"]:
            f.add("read:" + prog["vars"][r["v"]]["type"] + ":" + r["form"])
    return f
