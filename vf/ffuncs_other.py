"""Exception classes that go by the names of classes defined elsewhere (vf.ffuncs, builtins)."""


class CustomError(Exception):
    """Same name as vf.ffuncs.CustomError, another class."""


class ValueError(Exception):  # noqa: A001
    """Same name as the builtin, another class (not even a subclass of it)."""
