"""Schedule controller (C09): a baton scheduler over sys.monitoring.

Exactly one managed thread runs at a time. At every yield point (a LINE event in the files given as
`line_files`, a PY_START event in the other files under `start_dir`) the running thread asks the
strategy whether to hand the baton to another runnable thread. Locks that the code under test
creates through names the harness re-binds are SchedRLock instances: a failed non-blocking acquire
marks the thread blocked and passes the baton, so blocking is visible to the scheduler and a cycle
of blocked threads is a detected deadlock. Executions are deterministic given the decisions, so a
schedule is replayed from its list of preemption points."""
import os
import sys
import threading
import time

TOOL = 3
WATCHDOG_S = 30.0


class SchedAbort(BaseException):
    """Raised inside managed threads to unwind them when a run is abandoned."""


class Strategy:
    def first(self, ready):
        return min(ready)

    def decide(self, step, cur, others):
        return None

    def pick(self, ready):
        return min(ready)


class PreemptAt(Strategy):
    """Systematic driver: switch to thread t at the k-th yield point; otherwise run to completion."""

    def __init__(self, points, first=0):
        self.points = dict(points)
        self._first = first

    def first(self, ready):
        return self._first if self._first in ready else min(ready)

    def decide(self, step, cur, others):
        t = self.points.get(step)
        if t is not None and others:
            if isinstance(t, tuple):  # ("other", i): the i-th of the other runnable threads
                o = sorted(others)
                return o[min(t[1], len(o) - 1)]
            return t if t in others else min(others)
        return None


class RandomSwitch(Strategy):
    def __init__(self, rng, p):
        self.rng, self.p = rng, p

    def first(self, ready):
        return self.rng.choice(sorted(ready))

    def decide(self, step, cur, others):
        if others and self.rng.random() < self.p:
            return self.rng.choice(sorted(others))
        return None

    def pick(self, ready):
        return self.rng.choice(sorted(ready))


class PCT(Strategy):
    """Priority-based: the highest-priority runnable thread runs; at d random steps the running thread's
    priority drops below all others."""

    def __init__(self, rng, n, steps_hint, d):
        self.prio = {i: p for i, p in zip(range(n), rng.sample(range(10, 10 + n), n))}
        self.change = set(rng.sample(range(1, max(steps_hint, d + 2)), d))
        self.low = 9

    def first(self, ready):
        return max(ready, key=lambda i: self.prio[i])

    def decide(self, step, cur, others):
        if step in self.change:
            self.prio[cur] = self.low
            self.low -= 1
        if others:
            best = max(others, key=lambda i: self.prio[i])
            if self.prio[best] > self.prio[cur]:
                return best
        return None

    def pick(self, ready):
        return max(ready, key=lambda i: self.prio[i])


class Sched:
    current_sched = None

    def __init__(self, strategy):
        self.strategy = strategy
        self.cv = threading.Condition()
        self.current = None
        self.state = {}      # idx -> "ready" | ("blocked", lock) | "done"
        self.idents = {}     # thread ident -> idx
        self.step = 0
        self.trace = []      # [(step, from, to, why)]
        self.errors = {}     # idx -> exception escaping the body
        self.results = {}
        self.deadlock = None
        self.inconclusive = None
        self.abort = False
        self.yields_by = {}

    # -- identity -------------------------------------------------------------------------------
    def me(self):
        return self.idents.get(threading.get_ident())

    # -- running --------------------------------------------------------------------------------
    def run(self, bodies):
        """bodies: list of callables. Returns when all threads are done or the run was abandoned."""
        n = len(bodies)
        threads = []
        for i, body in enumerate(bodies):
            self.state[i] = "ready"
            t = threading.Thread(target=self._main, args=(i, body), daemon=True)
            threads.append(t)
        Sched.current_sched = self
        for t in threads:
            t.start()
        with self.cv:
            while len(self.idents) < n:
                self.cv.wait(1.0)
            self.current = self.strategy.first(set(range(n)))
            self.trace.append((0, None, self.current, "start"))
            self.cv.notify_all()
        deadline = time.time() + WATCHDOG_S * 4
        for t in threads:
            t.join(max(0.1, deadline - time.time()))
        if any(t.is_alive() for t in threads):
            self.inconclusive = self.inconclusive or "threads did not finish within the watchdog interval"
            with self.cv:
                self.abort = True
                self.cv.notify_all()
            for t in threads:
                t.join(5)
        Sched.current_sched = None

    def _main(self, idx, body):
        with self.cv:
            self.idents[threading.get_ident()] = idx
            self.cv.notify_all()
            self._wait_for_baton(idx)
        try:
            self.results[idx] = body()
        except SchedAbort:
            pass
        except BaseException as e:  # an error that escaped to the caller
            self.errors[idx] = e
        finally:
            with self.cv:
                self.state[idx] = "done"
                if not self.abort:
                    self._pass_on(idx, "end")

    def _wait_for_baton(self, idx):
        # called with cv held
        while self.current != idx:
            if self.abort:
                raise SchedAbort()
            if not self.cv.wait(WATCHDOG_S):
                self.inconclusive = "thread %d waited longer than the watchdog interval (unknown lock?)" % idx
                self.abort = True
                self.cv.notify_all()
                raise SchedAbort()
        if self.abort:
            raise SchedAbort()

    def _ready(self):
        return {i for i, s in self.state.items() if s == "ready"}

    def _pass_on(self, idx, why):
        # called with cv held, by the thread that can no longer run
        ready = self._ready() - {idx}
        if not ready:
            # nobody can run: a wait with a time limit comes back (its time is up)
            timed = sorted(i for i, s in self.state.items() if isinstance(s, tuple) and getattr(s[1], "timed", False))
            if timed:
                self.state[timed[0]][1].timed_out = True
                self.state[timed[0]] = "ready"
                ready = {timed[0]}
        if not ready:
            waiting = {i: s for i, s in self.state.items() if s != "done"}
            if waiting and all(isinstance(s, tuple) for s in waiting.values()):
                self.deadlock = "all unfinished threads are blocked: %s" % {i: repr(s[1]) for i, s in waiting.items()}
                self.abort = True
            self.current = None
            self.cv.notify_all()
            return
        nxt = self.strategy.pick(ready)
        self.trace.append((self.step, idx, nxt, why))
        self.current = nxt
        self.cv.notify_all()

    # -- yield points -----------------------------------------------------------------------------
    def yield_point(self):
        idx = self.me()
        if idx is None or self.current != idx or self.abort:
            return
        self.step += 1
        self.yields_by[idx] = self.yields_by.get(idx, 0) + 1
        others = self._ready() - {idx}
        target = self.strategy.decide(self.step, idx, others)
        if target is not None and target != idx and target in others:
            with self.cv:
                self.trace.append((self.step, idx, target, "preempt"))
                self.current = target
                self.cv.notify_all()
                self._wait_for_baton(idx)

    # -- locks ------------------------------------------------------------------------------------
    def block(self, idx, lock):
        with self.cv:
            self.state[idx] = ("blocked", lock)
            self._pass_on(idx, "blocked")
            if self.abort:
                raise SchedAbort()
            self._wait_for_baton(idx)

    def unblock(self, lock):
        with self.cv:
            for i, s in self.state.items():
                if isinstance(s, tuple) and s[1] is lock:
                    self.state[i] = "ready"


class SchedRLock:
    """Re-entrant lock with threading.RLock semantics whose contention is visible to the scheduler."""

    def __init__(self):
        self._real = threading.RLock()
        self._depth = 0  # how often its owner holds it (only touched by the owner)

    def acquire(self, blocking=True, timeout=-1):
        s = Sched.current_sched
        idx = s.me() if s is not None else None
        if idx is None:
            got = self._real.acquire(blocking, timeout)
            if got:
                self._depth += 1
            return got
        while not self._real.acquire(False):
            if not blocking:
                return False
            s.block(idx, self)
        self._depth += 1
        return True

    def release(self):
        self._depth -= 1
        self._real.release()
        s = Sched.current_sched
        if s is not None:
            s.unblock(self)

    __enter__ = acquire

    def __exit__(self, *a):
        self.release()

    def __repr__(self):
        return "<SchedRLock %x>" % id(self)


class _Waiter:
    def __init__(self, timed):
        self.notified, self.timed, self.timed_out = False, timed, False

    def __repr__(self):
        return "<waiting on a condition%s>" % (" (with a time limit)" if self.timed else "")


class SchedCondition:
    """threading.Condition semantics over a SchedRLock; a thread that waits is blocked as far as the scheduler is
    concerned, until it is notified (first come, first served) - or, for a wait with a time limit, until nobody else can
    run."""

    def __init__(self, lock=None):
        self._lock = lock if isinstance(lock, SchedRLock) else SchedRLock()
        self._waiters = []
        self.acquire, self.release = self._lock.acquire, self._lock.release

    def __enter__(self):
        return self._lock.acquire()

    def __exit__(self, *a):
        self._lock.release()

    def wait(self, timeout=None):
        s = Sched.current_sched
        idx = s.me() if s is not None else None
        if idx is None:  # a thread the scheduler does not manage: give the lock up for a moment
            depth = self._lock._depth
            for _ in range(depth):
                self._lock.release()
            time.sleep(0.001)
            for _ in range(depth):
                self._lock.acquire()
            return True
        w = _Waiter(timeout is not None)
        self._waiters.append(w)
        depth = self._lock._depth
        for _ in range(depth):
            self._lock.release()
        while not (w.notified or w.timed_out):
            s.block(idx, w)
        if w in self._waiters:
            self._waiters.remove(w)
        for _ in range(depth):
            self._lock.acquire()
        return w.notified

    def wait_for(self, predicate, timeout=None):
        result = predicate()
        while not result:
            if not self.wait(timeout) and timeout is not None:
                return predicate()
            result = predicate()
        return result

    def notify(self, n=1):
        s = Sched.current_sched
        for w in [w for w in self._waiters if not w.notified][:n]:
            w.notified = True
            self._waiters.remove(w)
            if s is not None:
                s.unblock(w)

    def notify_all(self):
        self.notify(len(self._waiters))

    notifyAll = notify_all


# ---------------------------------------------------------------- instrumentation
class Monitor:
    """sys.monitoring set-up: LINE events in line_files, PY_START events in the other files of start_dir."""

    def __init__(self, line_files, start_dir):
        self.line_files = {os.path.abspath(f) for f in line_files}
        self.start_dir = os.path.abspath(start_dir) + os.sep
        mon = sys.monitoring
        mon.use_tool_id(TOOL, "vf-sched")
        mon.register_callback(TOOL, mon.events.LINE, self._line)
        mon.register_callback(TOOL, mon.events.PY_START, self._start)
        mon.set_events(TOOL, mon.events.LINE | mon.events.PY_START)

    def _line(self, code, line):
        if code.co_filename not in self.line_files:
            return sys.monitoring.DISABLE
        s = Sched.current_sched
        if s is not None:
            s.yield_point()

    def _start(self, code, offset):
        fn = code.co_filename
        if fn in self.line_files or not fn.startswith(self.start_dir):
            return sys.monitoring.DISABLE
        s = Sched.current_sched
        if s is not None:
            s.yield_point()


_LOCK_TYPES = (type(threading.RLock()), type(threading.Lock()))


def install_locks():
    """Re-binds the lock names the code under test looks up at call time: the lock factories
    (`RLock`, `Lock`) imported into runner_local / storage_base and every module-level lock object.
    The per-invocation lock table itself is left as the code defines it (a dictionary, a cached
    function, ...): it creates its locks through the re-bound factory."""
    import sys

    from twosigma.memento import runner_local, storage_base  # noqa: F401

    rebound = []
    replaced = {}  # id of a lock object of the code under test -> the scheduler-aware lock that took its place
    mods = [m_ for n_, m_ in sorted(sys.modules.items()) if n_.startswith("twosigma.memento.") and m_ is not None]
    # (every module of the package: a lock added anywhere by a repair is picked up)
    for mod in mods:
        short = mod.__name__.rsplit(".", 1)[-1]
        for name, val in list(vars(mod).items()):
            if name in ("RLock", "Lock") and val is not SchedRLock:
                setattr(mod, name, SchedRLock)
                rebound.append("%s.%s" % (short, name))
            elif name == "Condition" and val is not SchedCondition:
                setattr(mod, name, SchedCondition)
                rebound.append("%s.%s" % (short, name))
            elif isinstance(val, _LOCK_TYPES):
                replaced[id(val)] = SchedRLock()
                setattr(mod, name, replaced[id(val)])
                rebound.append("%s.%s" % (short, name))
    for mod in mods:  # condition variables, over the lock that replaced theirs
        short = mod.__name__.rsplit(".", 1)[-1]
        for name, val in list(vars(mod).items()):
            if isinstance(val, threading.Condition):
                setattr(mod, name, SchedCondition(replaced.get(id(getattr(val, "_lock", None)))))
                rebound.append("%s.%s" % (short, name))
    reset_mutexes()
    return rebound


def reset_mutexes():
    """Empties the per-invocation lock table, whatever its form, so that locks made for an earlier
    run (and its scheduler) are not met again."""
    from twosigma.memento import runner_local

    for name, val in list(vars(runner_local).items()):
        if not name.startswith("_memento_fn_mutex"):
            continue
        if isinstance(val, dict):
            val.clear()
        elif callable(getattr(val, "cache_clear", None)):
            val.cache_clear()
