"""Storage-level operation histories, a dictionary reference model and a lock-step driver.

Used by C05 (differential against the model), C06 (cache invariants), C07 (content
integrity) and C19 (read-only back-ends)."""
import datetime as dt

from . import domain

FUNCS_NAMED = [("fn", "1"), ("fn", "10"), ("fn1", "0")]   # fn#10 has no local version -> external
FUNCS_DEFAULT = [("dfn", "1"), ("dfn1", "0"), ("dg", "2")]
NARGS = 3
VALKEYS = ["s0", "s1", "num", "none", "k3", "k6", "lst", "dct", "df", "arr", "k3b", "true", "flt", "part",
           "part2", "arr6", "df6", "exc", "exc", "part3", "partm", "partd", "excu"]
OVERRIDES = [None, None, None, "ovr/shared", "ovr/other", "ovr/k#1"]  # (a key may contain the character that separates key and version)
META_KEYS = ["log", "k2", ""]  # (the empty key is a key like any other)


def values():
    import numpy as np
    import pandas as pd

    return {
        "s0": "small-0", "s1": "small-1", "num": 42, "flt": 2.5, "none": None, "true": True,
        "k3": "x" * 3000, "k3b": "x" * 3000, "k6": b"y" * 6000, "lst": [1, 2, 3],
        "dct": {"a": 1, "b": [1.5, None]}, "df": pd.DataFrame({"a": [1, 2, 3], "b": ["x", "y", "z"]}),
        "arr": np.arange(5, dtype="int64"),
        # weak-referenceable and larger than the small cache budgets; the harness keeps holding these objects,
        # like a caller who still uses the result
        "arr6": np.arange(800, dtype="int64"), "df6": pd.DataFrame({"a": np.arange(700, dtype="int64")}),
        # partitions are created afresh for every memoize (storing one annotates the object)
        "part": lambda: _partition({"a": 1, "b": "x" * 10, "c": [1.5, None]}),
        "part2": lambda: _partition({"a": 1, "z": "other"}),
        # a partition with the same value under several of its keys
        "part3": lambda: _partition({"p": "dup-value", "q": "dup-value", "r": [7, 8], "s": [7, 8], "t": None}),
        # a partition that inherits the entries of another one (its merge parent, stored through the same backend right
        # before it): as a value it is the overlay; apply_backend builds the real thing
        "partm": lambda: _partition({"a": 1, "z": "other", "b": 3, "c": [4]}),
        # a partition staged on disk by the function (OnDiskPartition); its values equal values that other calls store
        "partd": lambda: _on_disk({"a": 1, "z": "other", "s": "small-0", "k": "x" * 3000, "own": "staged only"}),
        # a recorded failure (stored like a value: calls that failed alike share the stored object)
        "exc": _failure(),
        # ... whose message is not ASCII
        "excu": _failure("entr\u00e9e non valide \u2014 \u65e5\u672c"),
        # one value per call, never produced by any other call
        **{"u%d%d" % (f, a): "unique result of call %d/%d" % (f, a) for f in range(3) for a in range(NARGS)},
    }


def _failure(text="bad input"):
    from twosigma.memento.exception import MementoException

    return MementoException("python::builtins:ValueError", text, "Traceback (most recent call last):\n  ...\nValueError: %s\n" % text)


def _partition(d):
    from twosigma.memento.partition import InMemoryPartition

    return InMemoryPartition(dict(d))


def _on_disk(d):
    from twosigma.memento.storage_filesystem import OnDiskPartition

    p = OnDiskPartition()
    for k, v in d.items():
        p[k] = v
    return p


def val(vals, vk):
    v = vals[vk]
    return v() if callable(v) else v


def gen_history(rng, length, readonly_safe=False, valkeys=None, funcs=3):
    """Random op history; ops are JSON lists."""
    ops = []
    vk = valkeys or VALKEYS
    # most operations of a history aim at one "hot" call, so that multi-step interactions
    # (write metadata -> forget -> memoize again -> read metadata) actually occur
    hot = (rng.randrange(funcs), rng.randrange(NARGS))
    hot_p = rng.choice([0.0, 0.4, 0.7])
    for _ in range(length):
        f, a = rng.randrange(funcs), rng.randrange(NARGS)
        if rng.random() < hot_p:
            f, a = hot
        r = rng.random()
        if r < 0.30:
            ops.append(["memoize", f, a, rng.choice(vk), rng.choice(OVERRIDES)])
        elif r < 0.39:
            ops.append(["read", f, a])
        elif r < 0.41:
            ops.append(["readheld", f, a])  # read through the memento object handed to the last memoize of this call
        elif r < 0.42:
            # read through a memento of this call obtained BEFORE it was memoized again (what comes back is not judged
            # here - it is an earlier value, or nothing if that was removed - but the read must not change later answers)
            ops.append(["readold", f, a])
        elif r < 0.47:
            ops.append(["get", f, a])
        elif r < 0.49:
            ops.append(["getmany", [[rng.randrange(funcs), rng.randrange(NARGS)] for _ in range(rng.randint(2, 5))]])
        elif r < 0.50:
            # are all of these memoized? (asked with a list or with a one-shot iterable: the interface takes any iterable)
            ops.append(["ismem_all", [[rng.randrange(funcs), rng.randrange(NARGS)] for _ in range(rng.randint(1, 3))],
                        rng.choice(["list", "generator"])])
        elif r < 0.58:
            ops.append(["ismem", f, a])
        elif r < 0.68:
            ops.append(["forget_call", f, a])
        elif r < 0.73:
            ops.append(["forget_fn", f])
        elif r < 0.745:
            ops.append(["forget_all"])
        elif r < 0.75:
            ops.append(["reopen"])  # the store is opened again by new backend objects (drivers that hold several do it)
        elif r < 0.81:
            ops.append(["list_fns"])
        elif r < 0.86:
            ops.append(["list_mems", f])
        elif r < 0.88:
            ops.append(["list_mems_limit", f, rng.randint(0, 3)])
        elif r < 0.94:
            ops.append(["wmeta", f, a, META_KEYS[0] if rng.random() < 0.7 else META_KEYS[1], "m%d" % rng.randrange(4)])
        else:
            ops.append(["rmeta", f, a, META_KEYS[0] if rng.random() < 0.7 else META_KEYS[1]])
    # aimed block: everything written for a function whose stored name extends another one's (fn#1 / fn#10, fn / fn1),
    # a forget of the shorter one, then everything read back from the longer one
    if funcs >= 2 and rng.random() < 0.3:
        short, long_ = (0, 1) if funcs < 3 or rng.random() < 0.6 else (0, 2)
        a = rng.randrange(NARGS)
        block = [["memoize", long_, a, rng.choice(vk), rng.choice(OVERRIDES)], ["wmeta", long_, a, META_KEYS[0], "m%d" % rng.randrange(4)]]
        if rng.random() < 0.5:
            block.append(["memoize", short, a, rng.choice(vk), None])
            block.append(["wmeta", short, a, META_KEYS[0], "m%d" % rng.randrange(4)])
        block.append(rng.choice([["forget_fn", short], ["forget_call", short, a], ["forget_fn", short]]))
        block += [["rmeta", long_, a, META_KEYS[0]], ["read", long_, a], ["ismem", long_, a], ["list_mems", long_], ["list_fns"]]
        at = rng.randrange(len(ops) + 1)
        ops[at:at] = block
    # aimed block: two different calls store different weak-referenceable values under one override key, the store is
    # opened again, and both are read (the second while the caller still holds the first one's value)
    if funcs >= 2 and rng.random() < 0.2:
        w = [v for v in ("arr", "df", "arr6", "df6") if v in vk]
        if len(w) >= 2:
            v1, v2 = rng.sample(w, 2)
            (f1, a1), (f2, a2) = rng.sample([(f, a) for f in range(funcs) for a in range(NARGS)], 2)
            key = rng.choice(["ovr/shared", "ovr/other"])
            block = [["memoize", f1, a1, v1, key], ["memoize", f2, a2, v2, key]]
            if rng.random() < 0.7:
                block.append(["reopen"])
            block += rng.choice([[["read", f2, a2], ["read", f1, a1]], [["read", f1, a1], ["read", f2, a2], ["read", f1, a1]]])
            at = rng.randrange(len(ops) + 1)
            ops[at:at] = block
    # aimed block: one metadata key of one call written both ways (in the metadata store / next to the data object), the
    # last write counts. (The call's result is unlike any other, and the call is forgotten at the end: metadata stored
    # next to the data belongs to the stored object, which other calls with an equal result would share.)
    if rng.random() < 0.25:
        f, a = rng.randrange(funcs), rng.randrange(NARGS)
        mk = rng.choice(META_KEYS)
        block = [["memoize", f, a, "u%d%d" % (f, a), None]]
        for i in range(rng.randint(2, 4)):
            block.append([rng.choice(["wmeta", "wmetad"]), f, a, mk, "w%d" % i])
            if rng.random() < 0.7:
                block.append(["rmeta", f, a, mk])
        if rng.random() < 0.4:  # the call gets another result: what was stored next to the old one is gone, the rest stays
            block += [["rmeta", f, a, mk], ["memoize", f, a, rng.choice(["s0", "k3", "num", "none", "none"]), None]]
        block += [["rmeta", f, a, mk], ["forget_call", f, a], ["rmeta", f, a, mk]]
        if (f + a) % 2:  # (no draw) ... and the call is made again with the very same result: its metadata stays forgotten
            block += [["memoize", f, a, "u%d%d" % (f, a), None], ["rmeta", f, a, mk], ["forget_call", f, a]]
        at = rng.randrange(len(ops) + 1)
        ops[at:at] = block
    # aimed block: a call is memoized, memoized again with another value, then read through the memento of the first write
    if rng.random() < 0.25:
        f, a = rng.randrange(funcs), rng.randrange(NARGS)
        v1, v2 = rng.sample([v for v in vk if not v.startswith("part")], 2)
        block = [["memoize", f, a, v1, None], ["memoize", f, a, v2, rng.choice([None, None, "ovr/shared"])], ["readold", f, a],
                 ["read", f, a], ["get", f, a], ["read", f, a]]
        at = rng.randrange(len(ops) + 1)
        ops[at:at] = block
    # aimed block: a call is memoized twice with the same result (a second run that produced the same value): the memento
    # looked up afterwards is the one handed over last
    if rng.random() < 0.25:
        f, a = rng.randrange(funcs), rng.randrange(NARGS)
        v = rng.choice([x for x in vk if not x.startswith("part")])
        block = [["memoize", f, a, v, None], ["get", f, a], ["memoize", f, a, v, None], ["get", f, a], ["read", f, a], ["get", f, a]]
        at = rng.randrange(len(ops) + 1)
        ops[at:at] = block
    # aimed block: a call stores under an override key, everything is forgotten, another call stores under the same key, then
    # the first call's memento (still in the caller's hands) is read: its own bytes or nothing
    if not readonly_safe and rng.random() < 0.25:
        f, a = rng.randrange(funcs), rng.randrange(NARGS)
        f2, a2 = rng.choice([(x, y) for x in range(funcs) for y in range(NARGS) if (x, y) != (f, a)])
        v1, v2 = rng.sample([v for v in vk if not v.startswith("part") and not v.startswith("exc")], 2)
        block = [["memoize", f, a, v1, "ovr/shared"], ["forget_all"] if rng.random() < 0.6 else ["forget_call", f, a],
                 ["memoize", f2, a2, v2, "ovr/shared"], ["readheld", f, a], ["read", f2, a2]]
        at = rng.randrange(len(ops) + 1)
        ops[at:at] = block
    return ops


_SERIAL = {}


def serial(op):
    """A number of its own for every op object of the process (the same object is shown to the model and to every backend)."""
    return _SERIAL.setdefault(id(op), len(_SERIAL) + 1)


class Model:
    """Plain dictionary keyed by (function index, arg index)."""

    def __init__(self):
        self.d = {}

    def apply(self, op):
        k = op[0]
        if k in ("reopen", "readold"):
            return None
        if k == "memoize":
            _, f, a, vk, ovr = op
            old = self.d.get((f, a))
            # (metadata stored next to the data object belongs to that object: once the call has a new result it is gone
            # on the filesystem - while the in-heap backend, which has no objects to put it next to, keeps it; both are
            # accepted, raising is not)
            undecided = set(old.get("undecided", ())) | set(old.get("withdata", ())) if old else set()
            self.d[(f, a)] = {"v": vk, "meta": dict(old["meta"]) if old else {}, "ovr": ovr, "withdata": set(),
                              "undecided": undecided, "cid": "cid_%d" % serial(op)}
            return None
        if k in ("read", "readheld"):
            e = self.d.get((op[1], op[2]))
            return ("value", e["v"]) if e else "absent"
        if k == "get":
            e = self.d.get((op[1], op[2]))
            return ("present", e["v"], e.get("cid")) if e else "absent"
        if k == "ismem":
            return (op[1], op[2]) in self.d
        if k == "getmany":
            return [((f, a) if (f, a) in self.d else None) for f, a in op[1]]
        if k == "ismem_all":
            return all((f, a) in self.d for f, a in op[1])
        if k == "forget_call":
            self.d.pop((op[1], op[2]), None)
            return None
        if k == "forget_fn":
            for key in [key for key in self.d if key[0] == op[1]]:
                del self.d[key]
            return None
        if k == "forget_all":
            self.d.clear()
            return None
        if k == "list_fns":
            return sorted({key[0] for key in self.d})
        if k == "list_mems":
            return sorted(key[1] for key in self.d if key[0] == op[1])
        if k == "list_mems_limit":  # any min(limit, live) of the live entries
            return [op[2], sorted(key[1] for key in self.d if key[0] == op[1])]
        if k in ("wmeta", "wmetad"):
            _, f, a, mk, mv = op
            e = self.d.get((f, a))
            if e is None:
                return "skipped"  # public contract: metadata is written for existing mementos only
            e["meta"][mk] = mv
            (e.setdefault("withdata", set()).add if k == "wmetad" else e.setdefault("withdata", set()).discard)(mk)
            e.setdefault("undecided", set()).discard(mk)
            return None
        if k == "rmeta":
            e = self.d.get((op[1], op[2]))
            if e and op[3] in e.get("undecided", ()):
                return ["either", None, e["meta"].get(op[3])]
            return e["meta"].get(op[3]) if e else None
        raise ValueError(k)


class Refs:
    """Function references and arg hashes for the op alphabet."""

    def __init__(self, cluster, table=None):
        from twosigma.memento.reference import FunctionReference, FunctionReferenceWithArguments
        from . import sfuncs

        table = table or (FUNCS_NAMED if cluster == "c" else FUNCS_DEFAULT)
        self.refs = [
            FunctionReference(getattr(sfuncs, name), cluster_name=("c" if cluster == "c" else None),
                              version=ver)
            for name, ver in table
        ]
        self.qn = [r.qualified_name for r in self.refs]
        self.fwa = [[FunctionReferenceWithArguments(r, (), {"x": a}) for a in range(NARGS)]
                    for r in self.refs]
        self.ah = [[w.arg_hash for w in row] for row in self.fwa]
        self.ah_index = [{h: i for i, h in enumerate(row)} for row in self.ah]
        self.held = {}  # (backend id, f, a) -> memento object handed to the last memoize
        self.older = {}  # (backend id, f, a) -> memento object handed to the memoize before that one
        self.heldvk, self.oldervk, self.allvk = {}, {}, {}  # ... and which value each of them was handed with
        self.kept = []  # values handed back by reads: the harness holds on to them, like a caller who still uses them

    def memento(self, f, a, value):
        from twosigma.memento.metadata import Memento, InvocationMetadata, ResultType

        return Memento(
            time=dt.datetime(2020, 1, 1, tzinfo=dt.timezone.utc),
            invocation_metadata=InvocationMetadata(
                fn_reference_with_args=self.fwa[f][a], invocations=[], resources=[],
                runtime=dt.timedelta(seconds=1), result_type=ResultType.from_object(value)),
            function_dependencies={self.refs[f]}, runner={"type": "local"},
            correlation_id="cid_vf", content_key=None)

    def fwah(self, f, a):
        return self.fwa[f][a].fn_reference_with_arg_hash()


def apply_backend(backend, refs, vals, op, model_before=None):
    """Run one op against one backend; return a normalised answer, or ("raise", ...)."""
    from twosigma.memento.metadata import ResultType

    k = op[0]
    try:
        if k == "reopen":
            return None
        if k == "memoize":
            _, f, a, vk, ovr = op
            v = val(vals, vk)
            if vk == "partm" and not getattr(backend, "read_only", False):
                # the parent is memoized as the result of the same call first (the child then replaces it): a partition that
                # has been stored can be merged with
                parent = _partition({"a": 1, "z": "other", "b": "parent's"})
                backend.memoize(None, refs.memento(f, a, parent), parent)
                v = _partition({"b": 3, "c": [4]})
                v._merge_parent = parent
            m = refs.memento(f, a, v)
            m.correlation_id = "cid_%d" % serial(op)  # (every memoization hands over a memento of its own)
            backend.memoize(ovr, m, v)
            if not getattr(backend, "read_only", False):  # (a read-only backend skips the write: nothing to read through m)
                if (id(backend), f, a) in refs.held:
                    refs.older[(id(backend), f, a)] = refs.held[(id(backend), f, a)]
                    refs.oldervk[(id(backend), f, a)] = refs.heldvk.get((id(backend), f, a))
                refs.held[(id(backend), f, a)] = m
                refs.heldvk[(id(backend), f, a)] = vk
                refs.allvk.setdefault((id(backend), f, a), []).append(vk)
            return None
        if k == "readold":
            m = refs.older.get((id(backend), op[1], op[2]))
            if m is not None:
                try:
                    got = backend.read_result(m)
                except Exception:
                    return None  # (the earlier value may have been removed since)
                refs.kept.append(got)
                # whatever such a memento still reads is what was stored when it was created (a backend without versions
                # of its own may answer with a later result of the SAME call), never the result of another call
                vk0 = refs.oldervk.get((id(backend), op[1], op[2]))
                if vk0 is not None and not any(domain.eq_safe(val(vals, x), got)[0] for x in refs.allvk.get((id(backend), op[1], op[2]), [])):
                    return ("raise", "StaleMementoRead", "a memento of call %s/%s obtained before the call was memoized again reads %s; "
                                                         "what was stored when it was created is %s" % (
                                                             op[1], op[2], domain.describe(got, 80), domain.describe(val(vals, vk0), 80)))
            return None
        if k == "readheld":
            m = refs.held.get((id(backend), op[1], op[2]))
            if m is not None and (model_before is None or (op[1], op[2]) in model_before):
                return ("value", backend.read_result(m))
            if m is not None:
                # the entry was forgotten since: the memento in hand reads what it was created with or nothing at all, never
                # what another call stored in the meantime (under the same override key, say)
                try:
                    got = backend.read_result(m)
                except Exception:
                    got = refs  # (nothing)
                if got is not refs and not any(domain.eq_safe(val(vals, x), got)[0] for x in refs.allvk.get((id(backend), op[1], op[2]), [])):
                    return ("raise", "StaleMementoRead", "the memento of call %s/%s, forgotten since, reads %s; the call only ever stored %s" % (
                        op[1], op[2], domain.describe(got, 80), refs.allvk.get((id(backend), op[1], op[2]))))
            k = "read"  # nothing in hand (or the entry was forgotten since): an ordinary read
        if k in ("read", "get"):
            m = backend.get_memento(refs.fwah(op[1], op[2]))
            if m is None:
                return "absent"
            if op[0] == "get":
                return ("present", m.invocation_metadata.result_type.name,
                        m.invocation_metadata.fn_reference_with_args.fn_reference.qualified_name,
                        m.invocation_metadata.fn_reference_with_args.arg_hash, m.correlation_id)
            v = backend.read_result(m)
            refs.kept.append(v)
            return ("value", v)
        if k == "ismem":
            return bool(backend.is_memoized(refs.refs[op[1]], refs.ah[op[1]][op[2]]))
        if k == "ismem_all":
            fws = [refs.fwa[f][a] for f, a in op[1]]
            return bool(backend.is_all_memoized(fws if op[2] == "list" else (w for w in fws)))
        if k == "getmany":
            ms = backend.get_mementos([refs.fwah(f, a) for f, a in op[1]])
            return [None if m is None else [m.invocation_metadata.fn_reference_with_args.fn_reference.qualified_name,
                                            m.invocation_metadata.fn_reference_with_args.arg_hash] for m in ms]
        if k == "wmetad":  # metadata stored next to the data object
            _, f, a, mk, mv = op
            if model_before is not None and (f, a) not in model_before:
                return "skipped"  # (like wmeta: metadata is written for existing mementos only)
            m = backend.get_memento(refs.fwah(f, a))
            backend.write_metadata(refs.fwah(f, a), mk, mv.encode(),
                                   store_with_content_key=(m.content_key if m is not None else None))
            return None
        if k == "forget_call":
            backend.forget_call(refs.fwah(op[1], op[2]))
            return None
        if k == "forget_fn":
            backend.forget_function(refs.refs[op[1]])
            return None
        if k == "forget_all":
            backend.forget_everything()
            return None
        if k == "list_fns":
            return sorted(r.qualified_name for r in backend.list_functions())
        if k == "list_mems":
            return sorted(m.invocation_metadata.fn_reference_with_args.arg_hash
                          for m in backend.list_mementos(refs.refs[op[1]]))
        if k == "list_mems_limit":
            return sorted(m.invocation_metadata.fn_reference_with_args.arg_hash
                          for m in backend.list_mementos(refs.refs[op[1]], limit=op[2]))
        if k == "wmeta":
            _, f, a, mk, mv = op
            if model_before is not None and (f, a) not in model_before:
                return "skipped"
            backend.write_metadata(refs.fwah(f, a), mk, mv.encode())
            return None
        if k == "rmeta":
            r = backend.read_metadata(refs.fwah(op[1], op[2]), op[3])
            return r.decode() if isinstance(r, (bytes, bytearray)) else r
    except Exception as e:
        import traceback

        return ("raise", type(e).__name__, str(e)[:200], traceback.format_exc()[-600:])
    raise ValueError(k)


def answers_agree(op, expected, got, refs, vals):
    """Compare a backend's normalised answer with the model's."""
    from twosigma.memento.metadata import ResultType

    k = op[0]
    if isinstance(got, tuple) and got and got[0] == "raise":
        return False
    if k in ("read", "readheld"):
        if expected == "absent" or got == "absent":
            return expected == got
        return domain.eq(val(vals, expected[1]), got[1])
    if k == "get":
        if expected == "absent" or got == "absent":
            return expected == got
        return (got[1] == ResultType.from_object(val(vals, expected[1])).name
                and got[2] == refs.qn[op[1]] and got[3] == refs.ah[op[1]][op[2]]
                # ... and it is the memento handed over by the last memoization of the call
                and (len(expected) < 3 or expected[2] is None or len(got) < 5 or got[4] == expected[2]))
    if k == "getmany":
        want = [None if e is None else [refs.qn[e[0]], refs.ah[e[0]][e[1]]] for e in expected]
        return got == want
    if k == "list_fns":
        return got == sorted(refs.qn[i] for i in expected)
    if k == "list_mems":
        return got == sorted(refs.ah[op[1]][a] for a in expected)
    if k == "list_mems_limit":
        limit, live = expected
        live = {refs.ah[op[1]][a] for a in live}
        return isinstance(got, list) and len(got) == min(limit, len(live)) and len(set(got)) == len(got) and set(got) <= live
    if isinstance(expected, list) and expected and expected[0] == "either":
        return got in expected[1:]
    return expected == got


def show(ans):
    if isinstance(ans, tuple) and ans and ans[0] == "value":
        return "value " + domain.describe(ans[1], 60)
    return domain.describe(ans, 300) if not isinstance(ans, (str, type(None), bool)) else repr(ans)
