"""pytest plugin: runs the repository's own test-suite with three monitors switched on
(C06 cache invariant after every MemoryCache operation, C07 content-key integrity after every
memoize, C11 wire-schema + round trip on every encoded memento). Report: $VF_MONITOR_REPORT (JSON)."""
import functools
import hashlib
import json
import os

REPORT = {"cache_invariant_evaluations": 0, "content_keys_rehashed": 0, "documents_schema_checked": 0,
          "round_trips_compared": 0, "violations": []}


def _viol(monitor, msg):
    if len(REPORT["violations"]) < 20:
        import traceback

        test = os.environ.get("PYTEST_CURRENT_TEST", "?")
        REPORT["violations"].append({"monitor": monitor, "test": test, "msg": msg[:600]})


def pytest_configure(config):
    from checks.c06 import cache_invariant
    from checks.c11 import schema_errors, compare
    from twosigma.memento import storage_base
    from twosigma.memento.serialization import MementoCodec

    MC = storage_base.MemoryCache
    for name in ("get_mementos", "read_result", "is_memoized", "put", "forget_call", "forget_everything", "forget_function"):
        orig = getattr(MC, name)

        def make(orig):
            @functools.wraps(orig)
            def wrapper(self, *a, **kw):
                try:
                    return orig(self, *a, **kw)
                finally:
                    lock = getattr(self, "_lock", None)
                    if lock is not None:
                        lock.acquire()
                    try:
                        REPORT["cache_invariant_evaluations"] += 1
                        for sig, msg in cache_invariant(self):
                            _viol("C06 " + sig, msg)
                    finally:
                        if lock is not None:
                            lock.release()
            return wrapper
        setattr(MC, name, make(orig))

    SBB = storage_base.StorageBackendBase
    orig_memoize = SBB.memoize

    @functools.wraps(orig_memoize)
    def memoize(self, key_override, memento, result):
        r = orig_memoize(self, key_override, memento, result)
        ck = memento.content_key
        if ck is not None and ck.key.startswith("c/") and not self.read_only:
            try:
                with self._data_source.input_versioned(ck) as f:
                    data = f.read()
                REPORT["content_keys_rehashed"] += 1
                if "c/" + hashlib.sha256(data).hexdigest() != ck.key:
                    _viol("C07 bytes under a content key do not hash to that key", str(ck))
            except Exception as e:
                _viol("C07 content key of a fresh memento unreadable", "%s: %r" % (ck, e))
        return r
    SBB.memoize = memoize

    orig_encode = MementoCodec.encode_memento.__func__

    def encode_memento(cls, memento):
        doc = orig_encode(cls, memento)
        try:
            text = json.dumps(doc)
            doc2 = json.loads(text)
            REPORT["documents_schema_checked"] += 1
            errs = schema_errors(doc2)
            if errs:
                _viol("C11 the emitted document does not conform to the wire format", str(errs[:3]))
            m2 = cls.decode_memento(doc2)
            REPORT["round_trips_compared"] += 1
            bad = compare(memento, m2)
            if bad:
                _viol("C11 round trip loses or changes: " + ", ".join(bad), text[:300])
        except Exception as e:
            _viol("C11 encoded memento cannot be dumped / decoded", repr(e))
        return doc
    MementoCodec.encode_memento = classmethod(encode_memento)


def pytest_sessionfinish(session, exitstatus):
    REPORT["pytest_exitstatus"] = int(exitstatus)
    path = os.environ.get("VF_MONITOR_REPORT")
    if path:
        with open(path, "w") as f:
            json.dump(REPORT, f)
