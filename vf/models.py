"""Reference models written from the documentation, independent of the code under test."""
import datetime as dt
import hashlib
import json


# ---------------------------------------------------------------- documented argument hash
def spec_encode(v, fn_info=None):
    """The documented JSON-friendly encoding of an argument value (ArgumentHasher docstring).

    fn_info(obj) -> None | (qualified_name, partial_args list, partial_kwargs dict, parameter_names)
    describes memento-function values; it is supplied by the harness from the data it generated."""
    if v is None or isinstance(v, (bool, str, int, float)):
        return v
    if isinstance(v, dt.datetime):
        return {"_mementoType": "datetime", "iso8601": iso_datetime(v)}
    if isinstance(v, dt.date):
        return {"_mementoType": "date", "iso8601": "%04d-%02d-%02d" % (v.year, v.month, v.day)}
    if isinstance(v, list):
        return [spec_encode(x, fn_info) for x in v]
    if isinstance(v, dict):
        return {k: spec_encode(x, fn_info) for k, x in v.items()}
    info = fn_info(v) if fn_info else None
    if info is not None:
        qn, pargs, pkwargs, names = info
        return {"_mementoType": "FunctionReference", "qualifiedName": qn,
                "partialArgs": [spec_encode(x, fn_info) for x in pargs] if pargs else None,
                "partialKwargs": {k: spec_encode(x, fn_info) for k, x in (pkwargs or {}).items()},
                "parameterNames": list(names)}
    raise TypeError("outside the documented argument domain: %r" % type(v))


def iso_datetime(v):
    """ISO-8601 as documented: fraction only if non-zero and then 6 digits; offset iff aware."""
    s = "%04d-%02d-%02dT%02d:%02d:%02d" % (v.year, v.month, v.day, v.hour, v.minute, v.second)
    if v.microsecond:
        s += ".%06d" % v.microsecond
    off = v.utcoffset()
    if off is not None:
        total = int(off.total_seconds())
        sign = "+" if total >= 0 else "-"
        total = abs(total)
        s += "%s%02d:%02d" % (sign, total // 3600, (total % 3600) // 60)
        if total % 60:
            s += ":%02d" % (total % 60)
    return s


def canonical_json(encoded):
    """Sorted keys, no unnecessary whitespace."""
    return json.dumps(encoded, sort_keys=True, separators=(",", ":"))


def spec_arg_hash(bound, context_args=None, fn_info=None):
    """SHA-256 (lower-case hex) of the canonical JSON of the effective keyword arguments;
    non-empty context arguments are one more keyword argument named _memento_context_args."""
    eff = dict(bound)
    if context_args:
        eff["_memento_context_args"] = context_args
    return hashlib.sha256(canonical_json(spec_encode(eff, fn_info)).encode("utf-8")).hexdigest()


def spec_canonical(bound, context_args=None, fn_info=None):
    eff = dict(bound)
    if context_args:
        eff["_memento_context_args"] = context_args
    return canonical_json(spec_encode(eff, fn_info))


# ---------------------------------------------------------------- documented result types
def spec_result_type(v):
    """Name of the documented result type of a value (docs/serialization.rst, ResultType docstrings)."""
    import datetime as _dt

    import numpy as np
    import pandas as pd

    from twosigma.memento.partition import Partition

    if v is None:
        return "null"
    if isinstance(v, bool):
        return "boolean"
    if isinstance(v, str):
        return "string"
    if isinstance(v, (bytes, bytearray)):
        return "binary"
    if isinstance(v, (int, float)):
        return "number"
    if isinstance(v, _dt.datetime):
        return "timestamp"
    if isinstance(v, _dt.date):
        return "date"
    if isinstance(v, list):
        return "list_result"
    if isinstance(v, dict):
        return "dictionary"
    if isinstance(v, pd.Index):
        return "index"
    if isinstance(v, pd.Series):
        return "series"
    if isinstance(v, pd.DataFrame):
        return "data_frame"
    if isinstance(v, np.ndarray):
        return {"bool": "array_boolean"}.get(str(v.dtype), "array_" + str(v.dtype))
    if isinstance(v, Partition):
        return "partition"
    raise TypeError(type(v))
