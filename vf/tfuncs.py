"""Call-tree interpreter: six generic memento functions whose bodies follow a harness-side tree
description (which sub-calls to make, how, in which order). Used by C10, C15, C16.
Versions are explicit, so the code of this module never influences a key."""
import twosigma.memento as m
from twosigma.memento.resource import ResourceHandle
from twosigma.memento.resource_function import resource_function
from vf.recorder import REC

TREES = {}


class _Trees:
    def get(self, k):
        return TREES[k]


TT = _Trees()


@resource_function(resource_type="vfres")
def vres(url):
    return ResourceHandle("vfres", url, "v-" + url)


class NodeFailure(ValueError):
    pass


def _fn(i):
    return FUN.fns[i]


def _interp(fi, tree, node, fnarg, kw):
    REC.hit("t", fi, tree, node, sorted(kw), int(fnarg.fn.__name__[1:]) if fnarg is not None else None)
    spec = TT.get(tree)["nodes"][node]
    acc = [node]
    for step in spec["steps"]:
        kind = step[0]
        try:
            if kind == "call":
                acc.append(_fn(step[1])(tree, step[2]))
            elif kind == "igncall":  # the result of the sub-call is of no interest to the body
                acc.append(_fn(step[1]).ignore_result()(tree, step[2]))
            elif kind == "ignbatch":
                acc.append(_fn(step[1]).ignore_result().call_batch([{"tree": tree, "node": c} for c in step[2]], raise_first_exception=False))
            elif kind == "mutcall":  # hands the child a list and changes that list in place afterwards
                tag = [node]
                acc.append(_fn(step[1])(tree, step[2], tag=tag))
                tag.append(99)
            elif kind == "kwcall":
                acc.append(_fn(step[1])(node=step[2], tree=tree))
            elif kind == "partial":
                acc.append(_fn(step[1]).partial(tree)(step[2]))
            elif kind == "viaarg":
                if fnarg is not None:
                    acc.append(fnarg(tree, step[2]))
            elif kind == "passfn":  # calls a child and hands it a function value
                acc.append(_fn(step[1])(tree, step[2], _fn(step[3])))
            elif kind == "batch":
                res = _fn(step[1]).call_batch([{"tree": tree, "node": c} for c in step[2]],
                                              raise_first_exception=False)
                acc.append([r if not isinstance(r, Exception) else "exc:" + type(r).__name__ for r in res])
            elif kind == "resource":
                vres(step[1])
            elif kind == "ctxcall":
                acc.append(_fn(step[1]).with_context_args(dict(step[3]))(tree, step[2]))
            elif kind == "prevent":
                g = _fn(step[1]).with_prevent_further_calls(True)
                if len(step) > 3:  # the prevented call also attaches context arguments, before or after the prevention
                    g = (_fn(step[1]).with_context_args(dict(step[3])).with_prevent_further_calls(True) if step[4] == "ctx_first"
                         else g.with_context_args(dict(step[3])))
                acc.append(g(tree, step[2]))
        except Exception as e:  # parents survive failing children
            acc.append("exc:" + type(e).__name__)
    if spec.get("fail") == "memoized":
        raise NodeFailure("node %s failed" % node)
    if spec.get("fail") == "transient":
        from vf.ffuncs import Transient

        raise Transient("node %s not now" % node)
    return acc


@m.memento_function(version="t")
def t0(tree, node, fnarg=None, **kw):
    return _interp(0, tree, node, fnarg, kw)


@m.memento_function(version="t")
def t1(tree, node, fnarg=None, **kw):
    return _interp(1, tree, node, fnarg, kw)


@m.memento_function(version="t")
def t2(tree, node, fnarg=None, **kw):
    return _interp(2, tree, node, fnarg, kw)


@m.memento_function(version="t")
def t3(tree, node, fnarg=None, **kw):
    return _interp(3, tree, node, fnarg, kw)


@m.memento_function(cluster="c", version="t")
def t4(tree, node, fnarg=None, **kw):
    return _interp(4, tree, node, fnarg, kw)


@m.memento_function(version="t")
def t5(tree, node, fnarg=None, **kw):
    return _interp(5, tree, node, fnarg, kw)


class _Fun:
    fns = [t0, t1, t2, t3, t4, t5]


FUN = _Fun()
QN = ["vf.tfuncs:t0#t", "vf.tfuncs:t1#t", "vf.tfuncs:t2#t", "vf.tfuncs:t3#t", "c::vf.tfuncs:t4#t", "vf.tfuncs:t5#t"]
PARAMS = ["tree", "node", "fnarg", "kw"]
