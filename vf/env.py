"""Helpers that put the code under test into a known configuration inside a case process."""
import os
import shutil
import tempfile


class Scratch:
    """Temporary directory removed when the case ends (cases run in forked children that
    end with os._exit, so removal is explicit)."""

    def __init__(self, prefix="vf-"):
        self.root = tempfile.mkdtemp(prefix=prefix)
        os.environ["HOME"] = self.root  # never touch a real ~/.memento

    def path(self, *parts):
        return os.path.join(self.root, *parts)

    def close(self):
        shutil.rmtree(self.root, ignore_errors=True)

    def __enter__(self):
        return self

    def __exit__(self, *a):
        self.close()


def fs_backend(path, cache_mb=None, metadata_path=None, read_only=None):
    from twosigma.memento.storage_filesystem import FilesystemStorageBackend

    return FilesystemStorageBackend(
        path=path, metadata_path=metadata_path, memory_cache_mb=cache_mb, read_only=read_only
    )


def mem_backend(read_only=None):
    from twosigma.memento.storage_memory import MemoryStorageBackend

    return MemoryStorageBackend(read_only=read_only)


def set_env(root, default_storage=None, clusters=None, runner=None):
    """Install an Environment whose default cluster uses `default_storage` (a backend
    instance; default: filesystem under root/default) and named clusters from
    {name: storage backend}."""
    import twosigma.memento as m

    clusters = clusters or {}
    repo = m.ConfigurationRepository(
        name="vf-repo",
        clusters={
            name: m.FunctionCluster(name=name, storage=st, runner=runner)
            for name, st in clusters.items()
        },
    )
    env = m.Environment(name="vf", base_dir=root, repos=[repo])
    if default_storage is None:
        default_storage = fs_backend(os.path.join(root, "default"))
    env.default_cluster = m.FunctionCluster(name="default", storage=default_storage, runner=runner)
    m.Environment.set(env)
    return env


KIB = 1.0 / 1024  # memory_cache_mb value for one KiB
