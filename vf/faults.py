"""Failpoints on mutating filesystem operations (C08).

An audit hook numbers every mutating operation issued under a root (mkdir that creates, open for
writing, rename/replace, remove, rmdir, rmtree) and can, at the armed operation,
  crash-before      os._exit before the operation happens
  crash-mid         (open for writing) create the file with a chosen prefix of its final content, os._exit
  error             raise OSError(ENOSPC/EFBIG) instead of performing the operation
  error-write       (open for writing) let the open succeed, fail the write after n bytes
`error-write` needs a pass-through proxy around the file object, installed by patching
builtins.open / io.open (pathlib's Path.open looks io.open up at call time)."""
import builtins
import errno
import io
import os
import sys

_WRITE_FLAGS = os.O_WRONLY | os.O_RDWR | os.O_CREAT | os.O_TRUNC | os.O_APPEND
EXIT_CODE = 77


class Proxy:
    """File object that fails with ENOSPC/EFBIG once `limit` bytes (or characters) were written."""

    def __init__(self, f, limit, err):
        self._f, self._limit, self._err, self._n = f, limit, err, 0

    def write(self, data):
        room = self._limit - self._n
        if len(data) > room:
            if room > 0:
                self._f.write(data[:room])
                self._n += room
            self._f.flush()
            raise OSError(self._err, os.strerror(self._err))
        self._n += len(data)
        return self._f.write(data)

    def __enter__(self):
        return self

    def __exit__(self, *a):
        self._f.close()
        return False

    def __getattr__(self, name):
        return getattr(self._f, name)


class Faults:
    def __init__(self, root):
        self.root = os.path.abspath(root)
        self.active = False
        self.count = -1
        self.log = []
        self.armed = None  # {"index": k, "variant": ..., "prefix": bytes|None, "limit": n, "errno": e}
        self.fired = False
        self._proxy_next = None
        sys.addaudithook(self._hook)
        self._real_open = builtins.open
        builtins.open = self._open
        io.open = self._open

    # -- proxying ------------------------------------------------------------------------------
    def _open(self, *a, **kw):
        f = self._real_open(*a, **kw)
        if self._proxy_next is not None:
            limit, err = self._proxy_next
            self._proxy_next = None
            return Proxy(f, limit, err)
        return f

    # -- classification ------------------------------------------------------------------------
    def _under(self, p):
        if isinstance(p, os.PathLike):
            p = os.fspath(p)
        if isinstance(p, bytes):
            p = os.fsdecode(p)
        if not isinstance(p, str):
            return None
        ap = os.path.abspath(p)
        return ap if (ap == self.root or ap.startswith(self.root + os.sep)) else None

    def _classify(self, event, args):
        if event == "open":
            p = self._under(args[0])
            if p is None:
                return None
            mode, flags = args[1], args[2] or 0
            if (isinstance(mode, str) and any(c in mode for c in "wax+")) or (flags & _WRITE_FLAGS):
                return ("open-w", p)
            return None
        if event == "os.mkdir":
            p = self._under(args[0])
            return ("mkdir", p) if p and not os.path.isdir(p) else None
        if event == "os.rename":
            p = self._under(args[1]) or self._under(args[0])
            src = self._under(args[0])
            return ("rename", p, os.path.relpath(src, self.root) if src else None) if p else None
        if event in ("os.remove", "os.rmdir", "shutil.rmtree"):
            p = self._under(args[0])
            return ({"os.remove": "remove", "os.rmdir": "rmdir", "shutil.rmtree": "rmtree"}[event], p) if p else None
        return None

    def _hook(self, event, args):
        if not self.active or event not in ("open", "os.mkdir", "os.rename", "os.remove", "os.rmdir", "shutil.rmtree"):
            return
        c = self._classify(event, args)
        if c is None:
            return
        self.count += 1
        self.log.append([self.count, c[0], os.path.relpath(c[1], self.root), c[2] if len(c) > 2 else None])
        a = self.armed
        if a is None or a["index"] != self.count or self.fired:
            return
        self.fired = True
        v = a["variant"]
        if v == "crash-before":
            os._exit(EXIT_CODE)
        if v == "crash-mid":
            self.active = False
            with self._real_open(c[1], "wb") as f:
                f.write(a["prefix"])
                f.flush()
                os.fsync(f.fileno())
            os._exit(EXIT_CODE)
        if v == "error":
            raise OSError(a["errno"], os.strerror(a["errno"]))
        if v == "error-write":
            self._proxy_next = (a["limit"], a["errno"])


def role_of(rel):
    """Role of a path inside a store, for mechanism signatures."""
    base = os.path.basename(rel)
    if rel.endswith(".link.tmp"):
        return "temporary link"
    if rel.endswith(".link"):
        return "memento link" if ".memento.json" in base else ("metadata link" if ".metadata." in base else "data link")
    if ".versions" in rel.split(os.sep):
        return "memento object" if ".memento.json" in base else ("metadata object" if ".metadata." in base else "data object")
    if rel.endswith(".tmp"):
        return "temporary file"
    return "directory or other"
